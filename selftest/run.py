#!/usr/bin/env python3
"""Must-fail corpus: each mutant is applied to /repo's working tree, the property's check must report a
VIOLATION naming the expected function, and the tree is restored. The unmutated tree must pass."""
import json,subprocess,sys,os
os.chdir('/verif')
muts=json.load(open('selftest/mutants.json'))
only=sys.argv[1:] 
res=[]
def sh(c): return subprocess.run(c,shell=True,capture_output=True,text=True)
assert sh('git -C /repo status --porcelain').stdout.strip()=='' , "repo working tree not clean"
for m in muts:
    if only and m['id'] not in only and m['property'] not in only: continue
    p='/repo/'+m['file']; s=open(p).read()
    if m['old'] not in s:
        res.append((m['id'],'STALE (pattern not found)')); continue
    open(p,'w').write(s.replace(m['old'],m['new'],1))
    try:
        b=sh('cd /repo && GOFLAGS=-mod=mod GOPROXY=off GOSUMDB=off go build ./... 2>&1')
        if b.returncode!=0:
            res.append((m['id'],'DOES-NOT-COMPILE '+b.stdout[-200:])); continue
        r=sh('./check %s --tier quick'%m['property'])
        out=r.stdout
        viol=[l for l in out.split('\n') if l.startswith('VIOLATION')]
        named=[l for l in out.split('\n') if 'failed obligation' in l and m['expect'] in l]
        if r.returncode==1 and viol and named: res.append((m['id'],'caught: '+named[0].strip()[:150]))
        else: res.append((m['id'],'MISSED exit=%d\n%s'%(r.returncode,out[-600:])))
    finally:
        sh('git -C /repo checkout -- .')
bad=0
for i,r in res:
    print(i,'->',r)
    if not r.startswith('caught'): bad+=1
print('mutants=%d not-caught=%d'%(len(res),bad))
if not only:
    byid={m['id']:m for m in muts}
    with open('selftest/RESULTS.md','w') as f:
        f.write('| mutant | property | file | result |\n|-|-|-|-|\n')
        for i,r in res:
            f.write('| %s | %s | %s | %s |\n'%(i,byid[i]['property'],byid[i]['file'],r.split('\n')[0].replace('|','\\|')[:200]))
        f.write('\nmutants=%d not-caught=%d\n'%(len(res),bad))
sys.exit(1 if bad else 0)
