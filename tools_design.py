#!/usr/bin/env python3
"""Rewrites the generated tables of DESIGN.md ("Status as built") from the files the machinery itself writes:
MANIFEST.json, evidence/*.json, known_findings.json, seeded/RESULTS.md + seeded/*/meta.json, selftest/RESULTS.md.
Regions are delimited by <!-- BEGIN:NAME --> / <!-- END:NAME --> (the bare placeholder NAME_TABLE is accepted once)."""
import json, os, re
os.chdir('/verif')
m = json.load(open('MANIFEST.json'))
props = {json.loads(l)['id']: json.loads(l) for l in open('properties.jsonl')}

def status_table():
    rows = ['| id | title | status | functions under contract | obligations (quick) | discharged | known | backends | wall (s) |', '|-|-|-|-|-|-|-|-|-|']
    claimed = {c['property_id']: c for c in m['checks']}
    na = {n['property_id']: n['reason'] for n in m['not_applicable']}
    for pid in sorted(props):
        t = props[pid]['title']
        if pid in claimed:
            ev = {}
            try:
                ev = json.load(open('evidence/%s.json' % pid))
            except Exception:
                pass
            c = ev.get('coverage', {})
            be = ', '.join('%s %d' % (k, v) for k, v in sorted(c.get('backends', {}).items(), key=lambda kv: -kv[1])[:3])
            rows.append('| %s | %s | claimed (proof; %s tier evidence) | %d | %s | %s | %s | %s | %s |' % (
                pid, t, ev.get('tier', '?'), len(c.get('functions_under_contract', [])), c.get('obligations', '?'), c.get('discharged', '?'),
                c.get('known_finding_obligations', 0), be, ev.get('wall_s', '?')))
        else:
            rows.append('| %s | %s | not claimed: %s | | | | | | |' % (pid, t, na.get(pid, '?')))
    return '\n'.join(rows)

def fixes_table():
    kf = json.load(open('known_findings.json'))
    out = ['Repaired (each is one unguarded `fix:` commit in /repo; the obligation named failed before the repair and is',
           'discharged on every run now; a `fixed:` entry suppresses nothing):', '']
    for f in kf.get('fixed', []):
        out.append('* `' + f.replace('`', "'") + '`')
    out += ['', 'Open known findings (printed as `KNOWN-FINDING:` lines, matched by obligation name so any other failure of the',
            'same property is still a violation):', '']
    for f in kf.get('findings', []):
        if f.get('status') == 'open':
            out.append('* %s `%s` - %s Failing input: `%s`.' % (f['property'], f['obligation'], f['what'], f['input']))
    return '\n'.join(out)

def seeded_table():
    out = []
    if os.path.exists('seeded/RESULTS.md'):
        out.append('Seeded changes (written by independent sub-agents that saw only the property text and a scratch worktree; each')
        out.append('confirmed by `seeded/confirm.py`: applies, builds, the 725 tests pass, the demo differs). Result of')
        out.append('`seeded/run_all.py` (apply to /repo, run the quick check, restore):')
        out.append('')
        out.append(open('seeded/RESULTS.md').read().strip())
        out.append('')
        for d in sorted(os.listdir('seeded')):
            mp = os.path.join('seeded', d, 'meta.json')
            if os.path.exists(mp):
                mm = json.load(open(mp))
                note = mm.get('needs_to_manifest', '').strip().split('\n')
                first = next((l for l in note if l.strip() and not l.startswith('#')), '')
                out.append('* `%s` (%s): %s' % (d, mm['property'], first[:300]))
    if os.path.exists('selftest/RESULTS.md'):
        out.append('')
        out.append('Selftest mutants (`selftest/run.py`; my own deliberate breakages, including the former defects as canaries):')
        out.append('')
        out.append(open('selftest/RESULTS.md').read().strip())
    return '\n'.join(out)

s = open('DESIGN.md').read()
for name, fn in (('STATUS', status_table), ('FIXES', fixes_table), ('SEEDED', seeded_table)):
    body = '<!-- BEGIN:%s -->\n%s\n<!-- END:%s -->' % (name, fn(), name)
    pat = re.compile(r'<!-- BEGIN:%s -->.*?<!-- END:%s -->' % (name, name), re.S)
    if pat.search(s):
        s = pat.sub(lambda _: body, s)
    else:
        s = s.replace('\n%s_TABLE\n' % name, '\n' + body + '\n', 1)
open('DESIGN.md', 'w').write(s)
print('DESIGN.md tables regenerated')
