#!/usr/bin/env python3
# dev helper: print the unsat core of a query file (names every assert)
import sys,re,subprocess,tempfile
src=open(sys.argv[1]).read().split('\n')
out=['(set-option :produce-unsat-cores true)']
n=0;names={}
for l in src:
    if l.startswith('(assert ') :
        body=l[len('(assert '):]
        # strip trailing comment
        if ' ; ' in body: body=body[:body.rindex(' ; ')]
        body=body.rstrip()
        assert body.endswith(')')
        body=body[:-1]
        n+=1;names['a%d'%n]=l
        out.append('(assert (! %s :named a%d))'%(body,n))
    elif l.startswith('(get-value') or l.startswith('(get-model'):
        pass
    else: out.append(l)
out.append('(get-unsat-core)')
f=tempfile.NamedTemporaryFile('w',suffix='.smt2',delete=False);f.write('\n'.join(out));f.close()
r=subprocess.run(['z3-new','-T:20',f.name],capture_output=True,text=True).stdout
print(r.split('\n')[0])
for m in re.findall(r'a\d+',r.split('\n',1)[1] if '\n' in r else ''):
    print(m, names[m][:400])
