package main

import (
	"go/token"
	"flag"
	"fmt"
	"golang.org/x/tools/go/ssa"
	"os"
	"runtime"
	"sort"
	"strings"
	"sync"
	"time"
)

var devCmds = map[string]func([]string){}

func main() {
	// type aliases (object.SymHash = uint64) must not produce distinct type names: heap arrays are keyed by type
	os.Setenv("GODEBUG", "gotypesalias=0")
	if len(os.Args) < 2 {
		fmt.Fprintln(os.Stderr, "usage: gocv verify|check|list ...")
		os.Exit(2)
	}
	switch os.Args[1] {
	case "verify":
		cmdVerify(os.Args[2:])
	case "check":
		os.Exit(cmdCheck(os.Args[2:]))
	case "list":
		cmdList(os.Args[2:])
	case "pure":
		w, err := LoadWorld("/repo")
		if err != nil {
			panic(err)
		}
		ma := NewModAnalysis(w, ParseSpecs(w))
		for _, fn := range w.AllFuncs {
			if fn.Signature.Recv() != nil && (len(os.Args) < 3 || strings.Contains(w.FuncKey[fn], os.Args[2])) {
				pi := ma.pureOf(fn)
				fmt.Printf("%-60s pure=%v total=%v\n", w.FuncKey[fn], pi.pure, pi.total)
			}
		}
	case "mods":
		w, err := LoadWorld("/repo")
		if err != nil {
			panic(err)
		}
		ma := NewModAnalysis(w, ParseSpecs(w))
		for _, fn := range w.AllFuncs {
			if len(os.Args) < 3 || strings.Contains(w.FuncKey[fn], os.Args[2]) {
				fmt.Printf("%-60s %s\n", w.FuncKey[fn], describeMods(ma.Of(fn)))
			}
		}
	case "finals":
		w, err := LoadWorld("/repo")
		if err != nil {
			panic(err)
		}
		ma := NewModAnalysis(w, ParseSpecs(w))
		for _, k := range sortedKeys(ma.nonFinalField) {
			fmt.Println("NONFINAL", k, "--", ma.nonFinalField[k])
		}
	case "replay":
		os.Exit(cmdReplay(os.Args[2:]))
	default:
		if f, ok := devCmds[os.Args[1]]; ok {
			f(os.Args[2:])
			return
		}
		fmt.Fprintln(os.Stderr, "unknown command", os.Args[1])
		os.Exit(2)
	}
}

func parseFamilies(s string) map[string]bool {
	if s == "" || s == "all" {
		return nil
	}
	m := map[string]bool{}
	for _, f := range strings.Split(s, ",") {
		m[strings.TrimSpace(f)] = true
	}
	return m
}

func cmdList(args []string) {
	fs := flag.NewFlagSet("list", flag.ExitOnError)
	repo := fs.String("repo", "/repo", "repository")
	pat := fs.String("match", "", "substring filter")
	fs.Parse(args)
	w, err := LoadWorld(*repo)
	if err != nil {
		fmt.Fprintln(os.Stderr, err)
		os.Exit(3)
	}
	var keys []string
	for k := range w.Funcs {
		if strings.Contains(k, *pat) {
			keys = append(keys, k)
		}
	}
	sort.Strings(keys)
	for _, k := range keys {
		fmt.Println(k)
	}
}

// dev command: verify selected functions and print per-obligation results
func cmdVerify(args []string) {
	fs := flag.NewFlagSet("verify", flag.ExitOnError)
	repo := fs.String("repo", "/repo", "repository")
	fnPat := fs.String("fn", "", "comma-separated function keys (exact) or substrings with ~prefix")
	fams := fs.String("families", "all", "obligation families")
	timeout := fs.Int("timeout", 10, "solver timeout (s)")
	keep := fs.Bool("keep", false, "keep all query files")
	work := fs.String("work", "/verif/work/dev", "work dir")
	dbg := fs.Bool("panic", false, "do not recover engine panics")
	showAll := fs.Bool("v", false, "print discharged obligations too")
	fs.Parse(args)
	debugPanic = *dbg
	keepQueries = *keep
	os.MkdirAll(*work, 0o755)
	w, err := LoadWorld(*repo)
	if err != nil {
		fmt.Fprintln(os.Stderr, err)
		os.Exit(3)
	}
	sp := ParseSpecs(w)
	for _, e := range sp.Errors {
		fmt.Println("SPEC ERROR:", e)
	}
	mods := NewModAnalysis(w, sp)
	var targets []string
	for _, p := range strings.Split(*fnPat, ",") {
		p = strings.TrimSpace(p)
		if p == "" {
			continue
		}
		if strings.HasPrefix(p, "~") {
			for k := range w.Funcs {
				if strings.Contains(k, p[1:]) {
					targets = append(targets, k)
				}
			}
		} else if p == "@contracts" {
			targets = append(targets, sp.Order...)
		} else {
			targets = append(targets, p)
		}
	}
	sort.Strings(targets)
	results := verifyAll(w, sp, mods, targets, parseFamilies(*fams), *work, *timeout, false)
	nOK, nFail := 0, 0
	for _, r := range results {
		if r.GenErr != "" {
			fmt.Printf("%s: ENGINE ERROR %s\n", r.Key, r.GenErr)
			continue
		}
		for _, u := range r.Unsupported {
			fmt.Printf("%s: UNSUPPORTED %s\n", r.Key, u)
		}
		for _, o := range r.Obligations {
			ok := o.Result.Status == "unsat"
			if o.Family == "VACUITY" {
				ok = o.Result.Status != "unsat"
			}
			if ok {
				nOK++
				if *showAll {
					fmt.Printf("  ok   %-70s %s %.2fs\n", o.Name, o.Result.Solver, o.Result.Seconds)
				}
			} else {
				nFail++
				fmt.Printf("  FAIL %-70s %s [%s] %s :: %s\n", o.Name, o.Result.Status, strings.Join(o.Result.Tried, " "), o.Pos, o.Detail)
				if len(o.Result.Model) > 0 {
					var ks []string
					for k := range o.Result.Model {
						ks = append(ks, k)
					}
					sort.Strings(ks)
					for _, k := range ks {
						fmt.Printf("         %s = %s\n", k, o.Result.Model[k])
					}
				}
				if o.Result.Status == "error" {
					fmt.Printf("         %s\n", truncate(o.Result.Raw, 600))
				}
			}
		}
	}
	fmt.Printf("functions=%d discharged=%d failed=%d\n", len(results), nOK, nFail)
}

// retryFilter: which functions' undecided obligations deserve the sequential second chance
var retryFilter func(fnKey string) bool

// verifyAll generates and discharges the obligations of the given functions in parallel.
func verifyAll(w *World, sp *Specs, mods *ModAnalysis, keys []string, families map[string]bool, work string, timeoutS int, confirm bool) []*FuncResult {
	var results []*FuncResult
	seen := map[string]bool{}
	// generation is sequential (shares World caches); solving is parallel
	for _, k := range keys {
		fn := w.Funcs[k]
		if fn == nil {
			results = append(results, &FuncResult{Key: k, GenErr: "unbound-contract: no such function"})
			continue
		}
		if seen[w.FuncKey[fn]] {
			continue
		}
		seen[w.FuncKey[fn]] = true
		results = append(results, VerifyFunction(w, sp, mods, fn, families))
	}
	type job struct{ o *Obligation }
	jobs := make(chan *Obligation)
	var wg sync.WaitGroup
	// three solver processes race per obligation: keep workers x 3 at or below the number of cores, otherwise the
	// race loses more to contention than it gains (timeouts, then sequential retries)
	n := runtime.NumCPU() / 3
	if n > 8 {
		n = 8
	}
	if n < 1 {
		n = 1
	}
	for i := 0; i < n; i++ {
		wg.Add(1)
		go func() {
			defer wg.Done()
			for o := range jobs {
				o.Result = Solve(o, work, timeoutS, confirm)
			}
		}()
	}
	for _, r := range results {
		for _, o := range r.Obligations {
			jobs <- o
		}
	}
	close(jobs)
	wg.Wait()
	// second chance, without load: obligations that were not decided (timeout/unknown) in the parallel pass
	// are re-run one at a time with a longer limit, so that a busy machine cannot turn into a false alarm
	var retry []*Obligation
	for _, r := range results {
		for _, o := range r.Obligations {
			if retryFilter != nil && !retryFilter(r.Key) {
				continue
			}
			if o.Result != nil && o.Family != "VACUITY" && (o.Result.Status == "timeout" || o.Result.Status == "unknown" || (o.Result.Status == "sat" && o.Result.Reduced)) {
				retry = append(retry, o)
			}
		}
	}
	if len(retry) > 0 && len(retry) <= 40 {
		// the second chance has a budget of its own: a change that really breaks many obligations must not
		// turn the check into an hour of timeouts
		budget := time.Duration(timeoutS*12) * time.Second
		tRetry := time.Now()
		for _, o := range retry {
			if time.Since(tRetry) > budget {
				break
			}
			lim := timeoutS * 4
			if lim < 30 {
				lim = 30
			}
			r2 := Solve(o, work, lim, confirm)
			for seed := 1; seed <= 2 && r2.Status != "unsat" && (r2.Status != "sat" || r2.Reduced); seed++ {
				solverSeed = seed
				r3 := Solve(o, work, lim, confirm)
				r3.Tried = append(append(r2.Tried, fmt.Sprintf("seed%d:", seed)), r3.Tried...)
				if r3.Status == "unsat" || (r3.Status == "sat" && !r3.Reduced) {
					r2 = r3
				} else {
					r2.Tried = r3.Tried
				}
			}
			solverSeed = 0
			r2.Tried = append(append([]string{}, o.Result.Tried...), append([]string{"retry:"}, r2.Tried...)...)
			if r2.Status == "unsat" || !(o.Result.Status == "sat") {
				o.Result = r2
			}
		}
	}
	return results
}

func init() {
	devCmds["loops"] = func(args []string) {
		// loops <repo> <fnkey>: loop ordinals with the source line of their header
		w, err := LoadWorld(args[0])
		if err != nil {
			panic(err)
		}
		fn := w.Funcs[args[1]]
		if fn == nil {
			fmt.Println("no such function")
			return
		}
		ci := analyzeCFG(fn)
		for _, li := range ci.loops {
			best := token.NoPos
			for _, b := range fn.Blocks {
				if !li.blocks[b] {
					continue
				}
				for _, ins := range b.Instrs {
					if p := ins.Pos(); p.IsValid() && (best == token.NoPos || p < best) {
						best = p
					}
				}
			}
			hp := token.NoPos
			for _, ins := range li.header.Instrs {
				if _, isPhi := ins.(*ssa.Phi); isPhi {
					continue
				}
				if p := ins.Pos(); p.IsValid() && (hp == token.NoPos || p < hp) {
					hp = p
				}
			}
			for _, s := range li.header.Succs {
				if li.blocks[s] && hp == token.NoPos {
					for _, ins := range s.Instrs {
						if p := ins.Pos(); p.IsValid() && (hp == token.NoPos || p < hp) {
							hp = p
						}
					}
				}
			}
			fmt.Printf("loop %d header block %d (%s) first position in loop %s, in header/body %s\n", li.ordinal, li.header.Index, li.header.Comment, w.Fset.Position(best), w.Fset.Position(hp))
		}
	}
	devCmds["dyncalls"] = func(args []string) {
		w, err := LoadWorld("/repo")
		if err != nil {
			panic(err)
		}
		cnt := map[string]int{}
		for _, fn := range w.AllFuncs {
			for _, b := range fn.Blocks {
				for _, ins := range b.Instrs {
					if c, ok := ins.(ssa.CallInstruction); ok {
						cc := c.Common()
						if cc.IsInvoke() || cc.StaticCallee() != nil {
							continue
						}
						if _, isB := cc.Value.(*ssa.Builtin); isB {
							continue
						}
						cnt[cc.Value.Type().String()+"   e.g. "+w.FuncKey[fn]]++
					}
				}
			}
		}
		for _, k := range sortedKeys(cnt) {
			fmt.Println(cnt[k], k)
		}
	}
}
