package main

import (
	"fmt"
	"go/constant"
	"go/token"
	"go/types"
	"sort"
	"strings"

	"golang.org/x/tools/go/ssa"
)

func (c *Ctx) loopSpec(fr *Frame, li *loopInfo) *LoopSpec {
	con := c.sp.Contracts[c.w.keyOfAny(fr.fn)]
	if con == nil || con.Loops == nil {
		return nil
	}
	return con.Loops[li.ordinal]
}

func (c *Ctx) invEval(fr *Frame, st *State, header *ssa.BasicBlock, phis map[*ssa.Phi]Val) *SpecEval {
	ev := c.newSpecEval(fr, st, c.entryFor(fr))
	ev.header = header
	ev.phis = phis
	return ev
}

func (c *Ctx) entryFor(fr *Frame) *State { return c.entry }

// autoInvariants: for a header phi `i = phi [E, i + K]` with a positive (negative) constant K the fact
// i >= E (i <= E) is inductive; it is asserted at the back edge and assumed at the header like a written
// invariant, so it is checked, not trusted (overflow of i + K would make the back-edge assertion fail).
func (c *Ctx) autoInvariants(fr *Frame, li *loopInfo, st *State, phis map[*ssa.Phi]Val) []string {
	var out []string
	// freshness of accumulators: a slice/map/pointer loop variable that the (syntactic) origin analysis
	// shows to be built only from allocations of this activation stays fresh
	if fr == c.topFrame {
		for _, ins := range li.header.Instrs {
			phi, ok := ins.(*ssa.Phi)
			if !ok {
				break
			}
			_, isSl := phi.Type().Underlying().(*types.Slice)
			if !(isSl || isRefLike(phi.Type())) || c.mods.origin(phi, 0) != orFresh {
				continue
			}
			var cur string
			if phis != nil {
				if v, ok := phis[phi]; ok {
					cur = c.term(v)
				}
			}
			if cur == "" {
				if v, ok := fr.vals[phi]; ok {
					cur = c.term(v)
				}
			}
			if cur == "" {
				continue
			}
			if isSl {
				cur = "(s_arr " + cur + ")"
			}
			out = append(out, fmt.Sprintf("(or (= %s 0) (>= %s %s))", cur, cur, c.entry.alloc))
		}
		// address-taken local slice variables (captured by closures): same, through their cell
		for _, a := range sortedAllocs(st.locals) {
			cur := st.locals[a]
			_, isSl := a.Type().(*types.Pointer).Elem().Underlying().(*types.Slice)
			if !isSl || a.Parent() != fr.fn {
				continue
			}
			probe := loadOf(a)
			if probe == nil || c.mods.origin(probe, 0) != orFresh {
				continue
			}
			out = append(out, fmt.Sprintf("(or (= (s_arr %s) 0) (>= (s_arr %s) %s))", cur, cur, c.entry.alloc))
		}
	}
	for _, ins := range li.header.Instrs {
		phi, ok := ins.(*ssa.Phi)
		if !ok {
			break
		}
		if !isIntLike(phi.Type()) {
			continue
		}
		var entry ssa.Value
		dir := 0
		stepK := int64(0)
		okShape := true
		for pi, p := range li.header.Preds {
			e := phi.Edges[pi]
			if li.blocks[p] {
				bo, isBin := e.(*ssa.BinOp)
				if !isBin || bo.X != ssa.Value(phi) {
					okShape = false
					break
				}
				k, isC := bo.Y.(*ssa.Const)
				if !isC || k.Value == nil {
					okShape = false
					break
				}
				kv, exact := constantInt64(k)
				if !exact || kv == 0 {
					okShape = false
					break
				}
				d := 1
				if kv < 0 {
					d = -1
				}
				stepK = kv
				if bo.Op == token.SUB {
					d = -d
					stepK = -kv
				} else if bo.Op != token.ADD {
					okShape = false
					break
				}
				if dir != 0 && dir != d {
					okShape = false
					break
				}
				dir = d
			} else {
				if entry != nil && entry != e {
					okShape = false
					break
				}
				entry = e
			}
		}
		if !okShape || entry == nil || dir == 0 {
			continue
		}
		if _, isConst := entry.(*ssa.Const); !isConst {
			if _, has := fr.vals[entry]; !has {
				continue
			}
		}
		ev := c.operand(fr, entry, st)
		var cur string
		if phis != nil {
			if v, ok := phis[phi]; ok {
				cur = c.term(v)
			}
		}
		if cur == "" {
			if v, ok := fr.vals[phi]; ok {
				cur = c.term(v)
			} else {
				continue
			}
		}
		et := c.term(ev)
		if dir > 0 {
			out = append(out, fmt.Sprintf("(>= %s %s)", cur, et))
		} else {
			out = append(out, fmt.Sprintf("(<= %s %s)", cur, et))
		}
		// bound from the loop guard in the header: `phi (+K0) < Y` with Y loop-invariant, exit on false
		if b := c.guardBound(fr, li, st, phi, dir, stepK); b != "" {
			if dir > 0 {
				out = append(out, fmt.Sprintf("(<= %s (ite (>= %s %s) %s %s))", cur, et, b, et, b))
			} else {
				out = append(out, fmt.Sprintf("(>= %s (ite (<= %s %s) %s %s))", cur, et, b, et, b))
			}
		}
	}
	return out
}

// guardBound returns the largest (smallest) value the induction variable can take after an iteration,
// derived from the header's exit test, or "".
func (c *Ctx) guardBound(fr *Frame, li *loopInfo, st *State, phi *ssa.Phi, dir int, k int64) string {
	h := li.header
	iff, ok := h.Instrs[len(h.Instrs)-1].(*ssa.If)
	if !ok || len(h.Succs) != 2 || !li.blocks[h.Succs[0]] || li.blocks[h.Succs[1]] {
		return ""
	}
	bo, ok := iff.Cond.(*ssa.BinOp)
	if !ok {
		return ""
	}
	// X = phi or phi + K0 (computed in the header)
	k0 := int64(0)
	switch x := bo.X.(type) {
	case *ssa.Phi:
		if x != phi {
			return ""
		}
	case *ssa.BinOp:
		if x.X != ssa.Value(phi) || x.Block() != h {
			return ""
		}
		kc, isC := x.Y.(*ssa.Const)
		if !isC {
			return ""
		}
		v, exact := constantInt64(kc)
		if !exact {
			return ""
		}
		switch x.Op {
		case token.ADD:
			k0 = v
		case token.SUB:
			k0 = -v
		default:
			return ""
		}
	default:
		return ""
	}
	// Y loop-invariant
	switch y := bo.Y.(type) {
	case *ssa.Const, *ssa.Parameter:
	case ssa.Instruction:
		if li.blocks[y.Block()] {
			return ""
		}
		if _, has := fr.vals[bo.Y]; !has {
			return ""
		}
	default:
		return ""
	}
	if !isIntLike(bo.Y.Type()) {
		return ""
	}
	yt := c.term(c.operand(fr, bo.Y, st))
	// guard true: phi + k0 OP Y ; next = phi + k
	switch {
	case dir > 0 && bo.Op == token.LSS: // phi < Y - k0  => next <= Y - k0 + k - 1
		return fmt.Sprintf("(+ %s %s)", yt, smtInt(-k0+k-1))
	case dir > 0 && bo.Op == token.LEQ:
		return fmt.Sprintf("(+ %s %s)", yt, smtInt(-k0+k))
	case dir < 0 && bo.Op == token.GTR: // phi > Y - k0 => next >= Y - k0 + k + 1   (k negative)
		return fmt.Sprintf("(+ %s %s)", yt, smtInt(-k0+k+1))
	case dir < 0 && bo.Op == token.GEQ:
		return fmt.Sprintf("(+ %s %s)", yt, smtInt(-k0+k))
	}
	return ""
}

func constantInt64(k *ssa.Const) (int64, bool) {
	if k.Value == nil || k.Value.Kind() != constant.Int {
		return 0, false
	}
	return constant.Int64Val(k.Value)
}

func (c *Ctx) checkInvariants(fr *Frame, li *loopInfo, st *State, reach string, phis map[*ssa.Phi]Val, kind string, header *ssa.BasicBlock) {
	for i, inv := range c.autoInvariants(fr, li, st, phis) {
		c.oblige("POST", fmt.Sprintf("INV.auto.%s.loop%d.%d", kind, li.ordinal, i+1), header.Instrs[0].Pos(), reach, inv, "inferred induction-variable bound")
	}
	ls := c.loopSpec(fr, li)
	if ls == nil {
		return
	}
	if kind == "back" && len(ls.Steps) > 0 && li.headSt != nil {
		sev := c.invEval(fr, st, header, phis)
		sev.prevSt = li.headSt
		sev.entrySt, sev.entryPhis = li.entrySt, li.entryPhis
		for i, sc := range ls.Steps {
			tv, err := sev.eval(sc.Expr)
			if err != nil {
				c.unsupportedf("loop %d step %d of %s: %v", li.ordinal, i+1, c.w.keyOfAny(fr.fn), err)
				continue
			}
			c.oblige("POST", fmt.Sprintf("STEP.loop%d.%d", li.ordinal, i+1), header.Instrs[0].Pos(), reach, tv.T,
				fmt.Sprintf("loop %d step (one iteration): %s", li.ordinal, sc.Text))
		}
	}
	ev := c.invEval(fr, st, header, phis)
	ev.entrySt, ev.entryPhis = li.entrySt, li.entryPhis
	for i, inv := range ls.Invariants {
		tv, err := ev.eval(inv.Expr)
		if err != nil {
			c.unsupportedf("loop %d invariant %d of %s: %v", li.ordinal, i+1, c.w.keyOfAny(fr.fn), err)
			continue
		}
		c.oblige("POST", fmt.Sprintf("INV.%s.loop%d.%d", kind, li.ordinal, i+1), header.Instrs[0].Pos(), reach, tv.T,
			fmt.Sprintf("loop %d invariant (%s): %s", li.ordinal, kind, inv.Text))
	}
}

func (c *Ctx) assumeInvariants(fr *Frame, li *loopInfo, st *State, reach string) {
	for _, inv := range c.autoInvariants(fr, li, st, nil) {
		c.assume(reach, inv)
	}
	ls := c.loopSpec(fr, li)
	if ls == nil {
		return
	}
	ev := c.invEval(fr, st, li.header, nil)
	ev.entrySt, ev.entryPhis = li.entrySt, li.entryPhis
	for _, inv := range ls.Invariants {
		tv, err := ev.eval(inv.Expr)
		if err != nil {
			continue
		}
		c.assume(reach, tv.T)
	}
}

// rangeOfLoop: the map range whose Next sits in loop number ord of the frame's function.
func (c *Ctx) rangeOfLoop(fr *Frame, ord string) *ssa.Range {
	if fr == nil {
		fr = c.topFrame
	}
	if fr == nil {
		return nil
	}
	ci := c.mods.cfgOf(fr.fn)
	for _, li := range ci.loops {
		if fmt.Sprint(li.ordinal) != ord {
			continue
		}
		for _, r := range rangesIn(fr.fn, li) {
			return r
		}
	}
	return nil
}

func rangesIn(fn *ssa.Function, li *loopInfo) []*ssa.Range {
	var out []*ssa.Range
	for _, b := range fn.Blocks {
		if !li.blocks[b] {
			continue
		}
		for _, ins := range b.Instrs {
			if nx, ok := ins.(*ssa.Next); ok && !nx.IsString {
				if r, ok := nx.Iter.(*ssa.Range); ok {
					out = append(out, r)
				}
			}
		}
	}
	return out
}

func (c *Ctx) havocLoop(fr *Frame, li *loopInfo, entry *State, reach string) *State {
	st := entry.clone()
	for _, r := range rangesIn(fr.fn, li) {
		if vi, ok := st.vis[r]; ok {
			vi.set = c.havoc("vis", vi.sort)
			st.vis[r] = vi
		}
	}
	if c.loopHasTracedCalls(fr, li) {
		old := st.trN
		st.trN = c.havoc("trn", "Int")
		c.assume(reach, fmt.Sprintf("(>= %s %s)", st.trN, old))
		for _, a := range []string{"TR_fn", "TR_callee", "TR_a1", "TR_a2", "TR_a3", "TR_a4", "TR_a5", "TR_a6", "TR_res", "TR_res2", "TR_len", "TR_sa_arr", "TR_sa_off", "TR_sa_len", "TR_sa_cap", "TR_sb_arr", "TR_sb_off", "TR_sb_len", "TR_sb_cap", "TR_sr_arr", "TR_sr_off", "TR_sr_len", "TR_sr_cap"} {
			before := c.arr(st, a, "Int")
			st.heap[a] = c.havoc(a, "(Array Int Int)")
			k := c.fresh("k")
			c.lines = append(c.lines, fmt.Sprintf("(assert (forall ((%s Int)) (! (=> (< %s %s) (= (select %s %s) (select %s %s))) :pattern ((select %s %s)))))",
				k, k, old, st.heap[a], k, before, k, st.heap[a], k))
		}
	}
	ms := c.mods.LoopMods(fr.fn, li.blocks)
	c.applyMods(st, ms)
	for _, a := range sortedAllocs(ms.Locals) {
		if _, ok := st.locals[a]; ok || !c.escapes(a) {
			elem := a.Type().(*types.Pointer).Elem()
			v := c.havocVal("loc_"+a.Comment, elem)
			st.locals[a] = v.T
			c.assumeTyped(reach, v, elem, st, 2)
		}
	}
	// stores through captured variables of enclosing frames
	if len(ms.FreeVarStores) > 0 {
		var fvs []*ssa.FreeVar
		for fv := range ms.FreeVarStores {
			fvs = append(fvs, fv)
		}
		sort.Slice(fvs, func(i, j int) bool { return fvs[i].Name() < fvs[j].Name() })
		for _, fv := range fvs {
			if v, ok := fr.vals[fv]; ok && v.L != nil && v.L.Kind == LLocal {
				elem := v.L.Root
				hv := c.havocVal("loc_"+v.L.Local.Comment, elem)
				st.locals[v.L.Local] = hv.T
				c.assumeTyped(reach, hv, elem, st, 2)
			}
		}
	}
	return st
}

// ---- function verification ----

type FuncResult struct {
	Key         string
	Obligations []*Obligation
	Unsupported []string
	Assumptions []string
	HasContract bool
	GenErr      string
}

func VerifyFunction(w *World, sp *Specs, mods *ModAnalysis, fn *ssa.Function, families map[string]bool) (res *FuncResult) {
	c := NewCtx(w, sp, mods, fn, families)
	res = &FuncResult{Key: c.key, HasContract: c.contract != nil}
	defer func() {
		if r := recover(); r != nil {
			res.GenErr = fmt.Sprintf("engine panic: %v", r)
			res.Obligations = nil
			if debugPanic {
				panic(r)
			}
		}
	}()
	c.run()
	res.Obligations = c.obls
	res.Unsupported = c.unsupported
	for _, a := range sortedKeys(c.assumptions) {
		res.Assumptions = append(res.Assumptions, a)
	}
	return res
}

var debugPanic = false

func (c *Ctx) run() {
	c.sorts.constArr = c.constArray
	defer func() { c.sorts.constArr = nil }()
	fn := c.fn
	st := &State{heap: map[string]string{}, locals: map[*ssa.Alloc]string{}, alloc: "alloc_entry", held: "held_entry", trN: "0"}
	c.declare("alloc_entry", "Int")
	c.declare("held_entry", "Int")
	c.assume("true", "(> alloc_entry nglobals)")
	c.assume("true", "(and (<= 0 held_entry) (<= held_entry 2))")
	c.entry = st.clone()
	fr := &Frame{fn: fn, vals: map[ssa.Value]Val{}, specVars: map[string]TV{}}
	c.topFrame = fr
	con := c.contract
	if con != nil && len(con.Loops) > 0 {
		// every loop clause must bind to a loop of the body (a refactoring that removes an annotated loop must not
		// silently drop its obligations)
		have := map[int]bool{}
		for _, li := range analyzeCFG(fn).loops {
			have[li.ordinal] = true
		}
		var ords []int
		for n := range con.Loops {
			ords = append(ords, n)
		}
		sort.Ints(ords)
		for _, n := range ords {
			if !have[n] {
				c.unsupportedf("the contract has clauses for loop %d, but the body of %s has %d loop(s)", n, c.key, len(have))
			}
		}
	}
	c.emitAxioms(st)
	for i, p := range fn.Params {
		v := c.havocVal("p_"+p.Name(), p.Type())
		fr.vals[p] = v
		c.assumeTyped("true", v, p.Type(), st, 2)
		c.assumeInv("true", v.T, p.Type(), st)
		nm := p.Name()
		if con != nil && i < len(con.ParamNames) && con.ParamNames[i] != "" && con.ParamNames[i] != "_" {
			nm = con.ParamNames[i]
		}
		fr.specVars[nm] = TV{T: v.T, Typ: p.Type(), V: v}
		c.trackVal("in."+nm, v, p.Type(), st)
	}
	for _, fv := range fn.FreeVars {
		v := c.havocVal("fv_"+fv.Name(), fv.Type())
		fr.vals[fv] = v
		c.assumeTyped("true", v, fv.Type(), st, 2)
		if _, isPtr := fv.Type().Underlying().(*types.Pointer); isPtr {
			c.assume("true", c.nonNil(v.T))
		}
	}
	// variables captured by reference are distinct variables: their cells are distinct
	for i, a := range fn.FreeVars {
		for _, b := range fn.FreeVars[i+1:] {
			pa, okA := a.Type().Underlying().(*types.Pointer)
			pb, okB := b.Type().Underlying().(*types.Pointer)
			if okA && okB && types.Identical(pa.Elem(), pb.Elem()) && fr.vals[a].T != "" && fr.vals[b].T != "" {
				c.assume("true", fmt.Sprintf("(not (= %s %s))", fr.vals[a].T, fr.vals[b].T))
			}
		}
	}
	ev := c.newSpecEval(fr, st, c.entry)
	if con == nil {
		c.defaultPreconditions(fr, st)
	}
	c.assumeParamInvs(fr, st)
	if con != nil {
		c.evalLets(ev, con)
		for k, v := range ev.vars {
			fr.specVars[k] = v
		}
		for _, rq := range con.Requires {
			tv, err := ev.eval(rq.Expr)
			if err != nil {
				c.unsupportedf("requires %q: %v", rq.Text, err)
				continue
			}
			c.assume("true", tv.T)
		}
		for _, tr := range con.Track {
			tv, err := ev.eval(tr.Expr)
			if err != nil {
				c.unsupportedf("track %q: %v", tr.Text, err)
				continue
			}
			c.track["t."+tr.Text] = tv.T
			if ev.sortOf(tv) == "Int" && !isRefLikeT(tv.Typ) {
				if c.trackSmall == nil {
					c.trackSmall = map[string]bool{}
				}
				c.trackSmall["t."+tr.Text] = true
			}
		}
	}
	// vacuity guard: the precondition together with the background must be satisfiable
	if con != nil && len(con.Requires) > 0 && c.wants("POST") {
		c.obls = append(c.obls, &Obligation{Name: c.key + "#VACUITY.pre", Family: "VACUITY", Fn: c.key, Upto: len(c.lines),
			Reach: "true", Goal: "true", Detail: "requires && background is satisfiable (expects sat)", ctx: c, Track: map[string]string{}})
	}
	rets := c.execBody(fr, st, "true")
	// vacuity guard: some return must be reachable (contradictory assumptions - a wrong contract assumed at
	// a call, an inconsistent invariant - would make every obligation after them pass)
	if len(rets) > 0 {
		var rs []string
		for _, r := range rets {
			rs = append(rs, r.reach)
		}
		c.obls = append(c.obls, &Obligation{Name: c.key + "#VACUITY.returns", Family: "VACUITY", Fn: c.key, Upto: len(c.lines),
			Reach: or(rs...), Goal: "true", Detail: "some return point is reachable under all assumptions made along the way (expects not unsat)", ctx: c, Track: map[string]string{}})
	}
	// well-formedness obligations at every return
	if c.wants("WF") {
		for ri, r := range rets {
			if c.valueResult(fn) && len(r.vals) == 1 && r.vals[0].T != "" {
				c.oblige("WF", fmt.Sprintf("WF.result.ret%d", ri+1), r.pos, r.reach, c.isValTerm(r.vals[0].T),
					"the result must be a Pangaea value (non-nil, not a DeferObj/ReturnObj/YieldObj)")
			}
			for _, a := range fr.allocs {
				for _, ti := range c.typeInvsFor(a.t) {
					if ti.Assumed {
						continue
					}
					if f, ok := c.invTerm(ti, a.ref, types.NewPointer(a.t), r.st); ok {
						c.oblige("WF", fmt.Sprintf("WF.inv.%s.ret%d", sanitize(ti.Type), ri+1), r.pos, and(r.reach, a.reach), f,
							"an object allocated here must satisfy the invariant of "+ti.Type+" ("+ti.Text+")")
					}
				}
			}
		}
	}
	if con == nil {
		return
	}
	for ri, r := range rets {
		post := c.newSpecEval(fr, r.st, c.entry)
		var resType types.Type = fn.Signature.Results()
		var rv Val
		if fn.Signature.Results().Len() == 1 {
			resType = fn.Signature.Results().At(0).Type()
			rv = r.vals[0]
		} else {
			rv = Val{Tup: r.vals}
		}
		c.bindResults(post, con, rv, resType)
		for k, v := range fr.specVars {
			if _, ok := post.vars[k]; !ok {
				post.vars[k] = v
			}
		}
		saved := c.track
		c.track = map[string]string{}
		for k, v := range saved {
			c.track[k] = v
		}
		for i, v := range r.vals {
			c.trackVal(fmt.Sprintf("out.%d", i), v, fn.Signature.Results().At(i).Type(), r.st)
		}
		for ei, en := range con.Ensures {
			if en.Only != "" && currentProp != "" && en.Only != currentProp {
				continue
			}
			tv, err := post.eval(en.Expr)
			if err != nil {
				c.unsupportedf("ensures %q: %v", en.Text, err)
				continue
			}
			c.oblige("POST", fmt.Sprintf("POST.ensures%d.ret%d", ei+1, ri+1), r.pos, r.reach, tv.T, "ensures "+en.Text)
		}
		// lock ghost restored
		if c.wants("LOCK") && c.lockGlobal != "" {
			c.oblige("LOCK", fmt.Sprintf("LOCK.balanced.ret%d", ri+1), r.pos, r.reach, "(= "+r.st.held+" held_entry)", "lock state at return equals lock state at entry")
		}
		c.track = saved
	}
}

// trackVal registers model-readable terms for replay decoding.
func (c *Ctx) trackVal(label string, v Val, t types.Type, st *State) {
	if v.T == "" {
		return
	}
	switch t.Underlying().(type) {
	case *types.Slice:
		c.track[label+".len"] = "(s_len " + v.T + ")"
		c.track[label+".arr"] = "(s_arr " + v.T + ")"
		c.track[label+".off"] = "(s_off " + v.T + ")"
	default:
		c.track[label] = v.T
	}
}

// ---- state epochs / mod application ----

func (c *Ctx) applyModsImpl(st *State, ms *ModSet) {
	if ms != nil && (ms.Locks || ms.Top) && c.wants("LOCK") {
		st.held = c.havoc("held", "Int")
		c.assume("true", fmt.Sprintf("(and (<= 0 %s) (<= %s 2))", st.held, st.held))
	}
	old := st.alloc
	st.alloc = c.havoc("alloc", "Int")
	c.assume("true", fmt.Sprintf("(>= %s %s)", st.alloc, old))
	if ms == nil {
		return
	}
	if ms.Top {
		for _, n := range sortedKeys(st.heap) {
			c.havocArr(st, n)
		}
		c.epochSeq++
		st.epoch = c.epochSeq
		return
	}
	if ms.EC {
		// effects bounded by the EC frame: EC arrays are unconstrained afterwards; every other array keeps
		// the entries of pre-existing references (the callee may still allocate and initialise fresh objects)
		for _, n := range sortedKeys(c.mods.ECArrays) {
			before := c.arr(st, n, c.mods.ECArrays[n])
			c.havocArr(st, n)
			if c.mods.IsStoreArray(n) && ms.StoreRef != "*" {
				// variable stores: only the callee's own scope (its env argument's store) may change among the
				// stores that existed before the call
				after := st.heap[n]
				r := c.fresh("r")
				// iterator progress (the store of an iterator's own environment) is part of the EC frame
				exc := fmt.Sprintf("(not (iterStore %s))", r)
				if ms.StoreRef != "" {
					exc = fmt.Sprintf("(and (not (= %s %s)) (not (iterStore %s)))", r, ms.StoreRef, r)
				}
				c.lines = append(c.lines, fmt.Sprintf("(assert (forall ((%s Int)) (! (=> (and (< %s %s) %s) (= (select %s %s) (select %s %s))) :pattern ((select %s %s)))))",
					r, r, old, exc, after, r, before, r, after, r))
			}
		}
		for _, n := range sortedKeys(ms.Arrays) {
			if _, isEC := c.mods.ECArrays[n]; !isEC {
				c.arr(st, n, ms.Arrays[n])
				c.havocArr(st, n)
			}
		}
		for _, n := range sortedKeys(st.heap) {
			if _, ok := c.arrays[n]; !ok || strings.HasPrefix(n, "TR_") {
				continue
			}
			if _, isEC := c.mods.ECArrays[n]; isEC {
				continue
			}
			if _, written := ms.Arrays[n]; written {
				continue
			}
			before := st.heap[n]
			c.havocArr(st, n)
			after := st.heap[n]
			c.frameUnchanged(n, before, after, old)
		}
		return
	}
	if ms.FreshTop {
		// every known array: entries of pre-existing references are preserved
		for _, n := range sortedKeys(st.heap) {
			if _, ok := c.arrays[n]; !ok || strings.HasPrefix(n, "TR_") {
				continue
			}
			before := st.heap[n]
			c.havocArr(st, n)
			after := st.heap[n]
			c.frameUnchanged(n, before, after, old)
		}
		return
	}
	for _, n := range sortedKeys(ms.Arrays) {
		c.arr(st, n, ms.Arrays[n])
		c.havocArr(st, n)
	}
	for _, n := range sortedKeys(ms.Fresh) {
		if _, also := ms.Arrays[n]; also {
			continue
		}
		before := c.arr(st, n, ms.Fresh[n])
		c.havocArr(st, n)
		after := st.heap[n]
		c.frameUnchanged(n, before, after, old)
	}
}

// frameUnchanged: array n keeps its entries at every reference that existed before (r < old). Besides the
// quantified fact, ground instances are emitted for the references the current activation can name (its
// parameters, locals, loop variables), so that most frame reasoning is decided without quantifier instantiation.
func (c *Ctx) frameUnchanged(n, before, after, old string) {
	r := c.fresh("r")
	c.lines = append(c.lines, fmt.Sprintf("(assert (forall ((%s Int)) (! (=> (< %s %s) (= (select %s %s) (select %s %s))) :pattern ((select %s %s)))))",
		r, r, old, after, r, before, r, after, r))
	for _, ref := range c.scopeRefs(n) {
		c.lines = append(c.lines, fmt.Sprintf("(assert (=> (< %s %s) (= (select %s %s) (select %s %s))))", ref, old, after, ref, before, ref))
	}
}

// scopeRefs: terms of the references in the current frame whose pointee lives in heap array n.
func (c *Ctx) scopeRefs(n string) []string {
	fr := c.curFr
	if fr == nil || c.specDepth > 0 {
		return nil
	}
	if c.scopeCacheFr != fr || c.scopeCacheN != len(fr.vals) {
		c.scopeCacheFr, c.scopeCacheN = fr, len(fr.vals)
		c.scopeCache = map[string][]string{}
		seen := map[string]bool{}
		add := func(arr, ref string) {
			k := arr + "|" + ref
			if !seen[k] {
				seen[k] = true
				c.scopeCache[arr] = append(c.scopeCache[arr], ref)
			}
		}
		visit := func(v ssa.Value) {
			val, ok := fr.vals[v]
			if !ok || val.T == "" || val.L != nil || len(val.Tup) > 0 {
				return
			}
			switch t := v.Type().Underlying().(type) {
			case *types.Slice:
				add(c.sorts.ElemArrayT(t.Elem()), "(s_arr "+val.T+")")
			case *types.Map:
				add(c.sorts.MapHasT(t), val.T)
				add(c.sorts.MapValT(t), val.T)
				add(c.sorts.MapLenT(t), val.T)
			case *types.Pointer:
				if stt, ok := t.Elem().Underlying().(*types.Struct); ok {
					for i := 0; i < stt.NumFields(); i++ {
						an, _ := c.sorts.FieldArray(t.Elem(), i)
						if !c.isFinal(an) {
							add("H_"+strings.TrimPrefix(an, "H_"), val.T)
						}
					}
				} else {
					add(c.sorts.CellArrayT(t.Elem()), val.T)
				}
			}
		}
		for _, p := range fr.fn.Params {
			visit(p)
		}
		for _, b := range fr.fn.Blocks {
			for _, ins := range b.Instrs {
				if v, ok := ins.(ssa.Value); ok {
					visit(v)
				}
			}
		}
	}
	return c.scopeCache[n]
}

func describeMods(ms *ModSet) string {
	if ms == nil {
		return "none"
	}
	if ms.Top {
		return "TOP (" + ms.TopWhy + ")"
	}
	if ms.EC {
		return "EC+" + strings.Join(sortedKeys(ms.Arrays), ",")
	}
	out := strings.Join(sortedKeys(ms.Arrays), ",") + " fresh:" + strings.Join(sortedKeys(ms.Fresh), ",")
	for pi, arrs := range ms.ByParam {
		out += fmt.Sprintf(" param%d:%s", pi, strings.Join(sortedKeys(arrs), ","))
	}
	return out
}

func isRefLikeT(t types.Type) bool { return t != nil && isRefLike(t) }

// defaultPreconditions: what a swept function without a written contract may assume of its parameters,
// by type. These are recorded as assumptions (they are obligations only at call sites of functions
// that do have a written contract).
func (c *Ctx) defaultPreconditions(fr *Frame, st *State) {
	fn := c.fn
	add := func(f string) {
		c.assume("true", f)
	}
	vals := []ssa.Value{}
	for _, p := range fn.Params {
		vals = append(vals, p)
	}
	for _, fv := range fn.FreeVars {
		vals = append(vals, fv)
	}
	used := false
	for _, p := range vals {
		v, ok := fr.vals[p]
		if !ok || v.T == "" {
			continue
		}
		t := p.Type()
		if fv, isFV := p.(*ssa.FreeVar); isFV {
			// captured variables are pointers to cells; the cell content gets the facts
			if pt, ok := fv.Type().Underlying().(*types.Pointer); ok {
				l := c.asLoc(v, fv.Type(), st)
				v = Val{T: c.load(l, st), Typ: pt.Elem()}
				t = pt.Elem()
			}
		}
		for _, f := range c.defaultFactsFor(v.T, t, st) {
			add(f)
			used = true
		}
	}
	if used {
		c.noteAssumption("default precondition of swept function (no written contract): parameters are well-formed by type (non-nil pointers, isVal interfaces, argsOK slices)")
	}
}

func (c *Ctx) isValTerm(x string) string {
	carriers := []string{"DeferObj", "ReturnObj", "YieldObj"}
	fs := []string{c.nonNil(x)}
	for _, n := range carriers {
		if t, err := c.w.LookupType("*object."+n, "object"); err == nil {
			fs = append(fs, fmt.Sprintf("(not (= (dtype %s) %s))", x, c.tagOf(t)))
		}
	}
	return and(fs...)
}

func (c *Ctx) defaultFactsFor(term string, t types.Type, st *State) []string {
	ts := types.TypeString(t, nil)
	switch {
	case ts == repoMod+"/object.PanObject" || ts == repoMod+"/object.PanScalar":
		return []string{c.isValTerm(term)}
	case ts == "[]"+repoMod+"/object.PanObject":
		k := c.fresh("k")
		a := c.arr(st, c.sorts.ElemArrayT(t.Underlying().(*types.Slice).Elem()), "Int")
		el := fmt.Sprintf("(select (select %s (s_arr %s)) (+ (s_off %s) %s))", a, term, term, k)
		return []string{fmt.Sprintf("(forall ((%s Int)) (! (=> (and (<= 0 %s) (< %s (s_len %s))) %s) :pattern (%s)))", k, k, k, term, c.isValTerm(el), el)}
	}
	switch u := t.Underlying().(type) {
	case *types.Pointer:
		if _, isStruct := u.Elem().Underlying().(*types.Struct); isStruct {
			return []string{c.nonNil(term)}
		}
	case *types.Interface:
		if c.w.isRepoInterface(t) {
			return []string{c.nonNil(term)}
		}
	case *types.Signature:
		return []string{c.nonNil(term)}
	}
	return nil
}

// loadOf returns some load instruction of the local variable cell (to query the origin analysis).
func loadOf(a *ssa.Alloc) ssa.Value {
	if refs := a.Referrers(); refs != nil {
		for _, r := range *refs {
			if u, ok := r.(*ssa.UnOp); ok && u.Op == token.MUL {
				return u
			}
		}
	}
	return nil
}

// applyModsExcept: the callee writes only the listed objects (plus fresh memory): every array of its
// inferred effect set gets a new version that agrees with the old one except at those references.
func (c *Ctx) applyModsExcept(st *State, ms *ModSet, refs []string) {
	old := st.alloc
	st.alloc = c.havoc("alloc", "Int")
	c.assume("true", fmt.Sprintf("(>= %s %s)", st.alloc, old))
	if ms == nil {
		return
	}
	names := map[string]string{}
	for n, s := range ms.Arrays {
		names[n] = s
	}
	for n, s := range ms.Fresh {
		names[n] = s
	}
	for _, arrs := range ms.ByParam {
		for n, s := range arrs {
			names[n] = s
		}
	}
	if ms.Top || ms.EC || ms.FreshTop {
		for n := range st.heap {
			if s, ok := c.arrays[n]; ok && !strings.HasPrefix(n, "TR_") {
				names[n] = s
			}
		}
		if ms.EC || ms.Top {
			for n, s := range c.mods.ECArrays {
				names[n] = s
			}
		}
	}
	for _, n := range sortedKeys(names) {
		before := c.arr(st, n, names[n])
		c.havocArr(st, n)
		after := st.heap[n]
		if _, isEC := c.mods.ECArrays[n]; isEC && (ms.EC || ms.Top) {
			continue
		}
		r := c.fresh("r")
		var ne []string
		for _, x := range refs {
			ne = append(ne, fmt.Sprintf("(not (= %s %s))", r, x))
		}
		c.lines = append(c.lines, fmt.Sprintf("(assert (forall ((%s Int)) (! (=> (and (< %s %s) %s) (= (select %s %s) (select %s %s))) :pattern ((select %s %s)))))",
			r, r, old, and(ne...), after, r, before, r, after, r))
	}
	if (ms.Locks || ms.Top) && c.wants("LOCK") {
		st.held = c.havoc("held", "Int")
	}
}

// ---- well-formedness layer (C01): type invariants, value results, container elements ----

func (c *Ctx) typeInvsFor(t types.Type) []*TypeInv {
	n := namedOf(t)
	if n == nil || n.Obj().Pkg() == nil {
		return nil
	}
	key := n.Obj().Pkg().Name() + "." + n.Obj().Name()
	var out []*TypeInv
	for _, ti := range c.sp.TypeInvs {
		if ti.Type == key {
			out = append(out, ti)
		}
	}
	return out
}

// invTerm evaluates the invariant of type t for the value `self` in state st.
func (c *Ctx) invTerm(ti *TypeInv, self string, t types.Type, st *State) (string, bool) {
	ev := c.newSpecEval(nil, st, st)
	ev.pkg = ti.Pkg
	ev.vars["self"] = TV{T: self, Typ: t}
	saved := c.noClosed
	c.noClosed = true
	tv, err := ev.eval(ti.Expr)
	c.noClosed = saved
	if err != nil {
		c.unsupportedf("invariant %s: %v", ti.Type, err)
		return "", false
	}
	return tv.T, true
}

// assumeInv: the type invariant of a value that comes from outside this activation's own allocations.
func (c *Ctx) assumeInv(reach, term string, t types.Type, st *State) {
	if c.specDepth > 0 || c.noWF {
		return
	}
	if _, isIface := t.Underlying().(*types.Interface); isIface && c.w.isRepoInterface(t) {
		// closed world: the invariant of whichever node type the value holds
		for _, it := range c.w.Implementers(t.Underlying().(*types.Interface)) {
			pt, ok := it.(*types.Pointer)
			if !ok {
				continue
			}
			for _, ti := range c.typeInvsFor(pt.Elem()) {
				if f, ok := c.invTerm(ti, term, it, st); ok {
					c.assume(reach, implies(fmt.Sprintf("(and (not (= %s 0)) (= (dtype %s) %s))", term, term, c.tagOf(it)), f))
				}
			}
		}
		return
	}
	var base types.Type = t
	isPtr := false
	if p, ok := t.Underlying().(*types.Pointer); ok {
		base = p.Elem()
		isPtr = true
	}
	if _, isStruct := base.Underlying().(*types.Struct); !isStruct {
		return
	}
	invs := c.typeInvsFor(base)
	if len(invs) == 0 {
		return
	}
	for _, ti := range invs {
		var selfT types.Type = base
		if isPtr {
			selfT = t
		}
		f, ok := c.invTerm(ti, term, selfT, st)
		if !ok {
			continue
		}
		if isPtr {
			c.assume(reach, implies(c.nonNil(term), f))
		} else {
			c.assume(reach, f)
		}
	}
}

// valueResult: functions of the declared packages whose single result is object.PanObject return a value.
func (c *Ctx) valueResult(fn *ssa.Function) bool {
	if fn == nil {
		return false
	}
	res := fn.Signature.Results()
	if res.Len() != 1 || types.TypeString(res.At(0).Type(), nil) != repoMod+"/object.PanObject" {
		return false
	}
	root := fn
	for root.Parent() != nil {
		root = root.Parent()
	}
	pk := fnPkg(root)
	if pk == nil {
		return false
	}
	for _, p := range c.sp.ValueResultPkgs {
		if shortPkg(pk.Pkg.Path()) == p {
			return true
		}
	}
	return false
}

func isPanObjectIface(t types.Type) bool {
	ts := types.TypeString(t, nil)
	return ts == repoMod+"/object.PanObject" || ts == repoMod+"/object.PanScalar"
}

// mapValInvs: invariants declared on a map type (`invariant map[object.SymHash]object.Pair: ...`): every value
// ever stored under that Go map type satisfies them. Checked at each map update (WF.store), assumed at each
// read - sound by induction over all stores of the program, like type invariants.
func (c *Ctx) mapValInvs(mt *types.Map) []*TypeInv {
	var out []*TypeInv
	for _, ti := range c.sp.TypeInvs {
		if !strings.HasPrefix(ti.Type, "map[") {
			continue
		}
		// resolved through the type checker (SymHash is an alias of uint64)
		t, err := c.w.LookupType(ti.Type, ti.Pkg)
		if err != nil {
			c.unsupportedf("invariant %s: %v", ti.Type, err)
			continue
		}
		if types.Identical(t, mt) {
			out = append(out, ti)
		}
	}
	return out
}

func (c *Ctx) wfMapStore(reach string, pos token.Pos, term string, mt *types.Map, st *State) {
	c.wfStore(reach, pos, term, mt.Elem(), st, "map entry")
	if !c.wants("WF") || c.specDepth > 0 {
		return
	}
	for _, ti := range c.mapValInvs(mt) {
		if f, ok := c.invTerm(ti, term, mt.Elem(), st); ok {
			c.oblige("WF", "WF.store", pos, reach, f, "map entry: a value stored in a "+ti.Type+" must satisfy ("+ti.Text+")")
		}
	}
}

func (c *Ctx) wfMapRead(reach string, term string, mt *types.Map, st *State) {
	c.wfRead(reach, term, mt.Elem(), st)
	if c.specDepth > 0 || c.noWF {
		return
	}
	for _, ti := range c.mapValInvs(mt) {
		if f, ok := c.invTerm(ti, term, mt.Elem(), st); ok {
			c.assume(reach, f)
		}
	}
}

// wfStore: what is written into a container element / map value must be a value.
func (c *Ctx) wfStore(reach string, pos token.Pos, term string, t types.Type, st *State, what string) {
	if !c.wants("WF") || c.specDepth > 0 {
		return
	}
	if isPanObjectIface(t) {
		c.oblige("WF", "WF.store", pos, reach, c.isValTerm(term), what+": the stored object must be a Pangaea value (non-nil, not an interpreter-internal carrier)")
		return
	}
	if _, isStruct := t.Underlying().(*types.Struct); isStruct {
		for _, ti := range c.typeInvsFor(t) {
			if f, ok := c.invTerm(ti, term, t, st); ok {
				c.oblige("WF", "WF.store", pos, reach, f, what+": the stored "+ti.Type+" must satisfy its invariant ("+ti.Text+")")
			}
		}
	}
}

// wfRead: what is read from a container element / map value is a value.
func (c *Ctx) wfRead(reach string, term string, t types.Type, st *State) {
	if c.specDepth > 0 || c.noWF {
		return
	}
	if isPanObjectIface(t) {
		c.assume(reach, c.isValTerm(term))
		return
	}
	if isASTType(t) && isRefLike(t) {
		// elements of the syntax tree's child lists are never nil (parser output, assumed)
		c.assume(reach, c.nonNil(term))
		c.assumeInv(reach, term, t, st)
		return
	}
	if _, isStruct := t.Underlying().(*types.Struct); isStruct {
		c.assumeInv(reach, term, t, st)
	}
}

func isASTType(t types.Type) bool {
	if p, ok := t.(*types.Pointer); ok {
		t = p.Elem()
	}
	n, ok := t.(*types.Named)
	return ok && n.Obj().Pkg() != nil && n.Obj().Pkg().Path() == repoMod+"/ast"
}

// assumeParamInvs: named-parameter invariants (`paraminv`), e.g. the container of built-ins that start-up
// dependency injection hands to every props constructor.
func (c *Ctx) assumeParamInvs(fr *Frame, st *State) {
	for _, pi := range c.sp.ParamInvs {
		var v Val
		var t types.Type
		found := false
		for _, p := range c.fn.Params {
			if p.Name() == pi.Name {
				v, t, found = fr.vals[p], p.Type(), true
			}
		}
		for _, fv := range c.fn.FreeVars {
			if fv.Name() == pi.Name {
				val := fr.vals[fv]
				if pt, ok := fv.Type().Underlying().(*types.Pointer); ok {
					if _, isMap := pt.Elem().Underlying().(*types.Map); isMap {
						l := c.asLoc(val, fv.Type(), st)
						val = Val{T: c.load(l, st), Typ: pt.Elem()}
						v, t, found = val, pt.Elem(), true
						continue
					}
				}
				v, t, found = val, fv.Type(), true
			}
		}
		if !found || v.T == "" {
			continue
		}
		ev := c.newSpecEval(nil, st, st)
		ev.pkg = pi.Pkg
		ev.vars[pi.Name] = TV{T: v.T, Typ: t}
		tv, err := ev.eval(pi.Expr)
		if err != nil {
			c.unsupportedf("paraminv %s: %v", pi.Name, err)
			continue
		}
		c.assume("true", tv.T)
		c.noteAssumption("parameter invariant assumed for `" + pi.Name + "`: " + pi.Text)
	}
}

func (c *Ctx) loopHasTracedCalls(fr *Frame, li *loopInfo) bool {
	for b := range li.blocks {
		for _, ins := range b.Instrs {
			if call, ok := ins.(ssa.CallInstruction); ok {
				if _, traced := c.tracedKey(fr, call.Common()); traced {
					return true
				}
				// local closures are inlined: look inside
				if mc, ok := call.Common().Value.(*ssa.MakeClosure); ok {
					for _, bb := range mc.Fn.(*ssa.Function).Blocks {
						for _, i2 := range bb.Instrs {
							if c2, ok := i2.(ssa.CallInstruction); ok {
								if _, traced := c.tracedKey(fr, c2.Common()); traced {
									return true
								}
							}
						}
					}
				}
			}
		}
	}
	return false
}
