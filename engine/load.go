package main

import (
	"fmt"
	"go/ast"
	"go/token"
	"go/types"
	"os"
	"sort"
	"strings"
	"sync"

	"golang.org/x/tools/go/packages"
	"golang.org/x/tools/go/ssa"
	"golang.org/x/tools/go/ssa/ssautil"
)

const repoMod = "github.com/Syuparn/pangaea"

// World is everything loaded from /repo on this run.
type World struct {
	RepoDir  string
	Fset     *token.FileSet
	Pkgs     []*packages.Package
	Prog     *ssa.Program
	SSAPkgs  map[string]*ssa.Package // by short name (object, evaluator, ...)
	PkgByID  map[string]*packages.Package
	Funcs    map[string]*ssa.Function // by contract key
	FuncKey  map[*ssa.Function]string
	AllFuncs []*ssa.Function // repo functions only, sorted by key
	// named types of the repo (for closed-world dispatch)
	Named []*types.Named
	// contract text per package (from zz_contracts_verif.go)
	ContractFiles map[string][]string // pkg short name -> lines
	typeTags      map[string]int
	mu            sync.Mutex
	implCache     map[*types.Interface][]types.Type
	tagTypes      []types.Type
}

var loadPatterns = []string{"./object", "./evaluator", "./props", "./di", "./runscript", "./parser", "./ast",
	"github.com/macrat/simplexer"}

func shortPkg(path string) string {
	if i := strings.LastIndex(path, "/"); i >= 0 {
		return path[i+1:]
	}
	return path
}

func LoadWorld(repo string) (*World, error) {
	cfg := &packages.Config{
		Mode:       packages.LoadAllSyntax,
		Dir:        repo,
		BuildFlags: []string{"-tags=verif"},
		Env: append(os.Environ(), "GOFLAGS=-mod=mod", "GOPROXY=off", "GOSUMDB=off",
			"GOTOOLCHAIN=local"),
	}
	pkgs, err := packages.Load(cfg, loadPatterns...)
	if err != nil {
		return nil, err
	}
	nerr := 0
	for _, p := range pkgs {
		for _, e := range p.Errors {
			fmt.Fprintln(os.Stderr, "load error:", e)
			nerr++
		}
	}
	if nerr > 0 {
		return nil, fmt.Errorf("%d package load errors", nerr)
	}
	prog, spkgs := ssautil.AllPackages(pkgs, ssa.GlobalDebug)
	prog.Build()
	w := &World{RepoDir: repo, Prog: prog, Pkgs: pkgs, SSAPkgs: map[string]*ssa.Package{},
		PkgByID: map[string]*packages.Package{}, Funcs: map[string]*ssa.Function{},
		FuncKey: map[*ssa.Function]string{}, ContractFiles: map[string][]string{}, typeTags: map[string]int{}}
	if len(pkgs) > 0 {
		w.Fset = pkgs[0].Fset
	}
	for i, p := range pkgs {
		sp := spkgs[i]
		if sp == nil {
			continue
		}
		w.SSAPkgs[shortPkg(p.PkgPath)] = sp
		w.PkgByID[shortPkg(p.PkgPath)] = p
	}
	// index functions
	for fn := range ssautil.AllFunctions(prog) {
		if fn.Pkg == nil && fn.Parent() == nil {
			// wrappers / synthetic
			if fn.Synthetic != "" {
				continue
			}
		}
		pk := fnPkg(fn)
		if pk == nil || !w.isRepoPkg(pk.Pkg.Path()) {
			continue
		}
		if fn.Synthetic != "" && !strings.HasPrefix(fn.Synthetic, "package initializer") {
			continue
		}
		key := w.keyOf(fn)
		if _, dup := w.Funcs[key]; dup {
			continue
		}
		w.Funcs[key] = fn
		w.FuncKey[fn] = key
		w.AllFuncs = append(w.AllFuncs, fn)
	}
	sort.Slice(w.AllFuncs, func(i, j int) bool { return w.FuncKey[w.AllFuncs[i]] < w.FuncKey[w.AllFuncs[j]] })
	// map-key aliases for built-in closures: props.IntProps["+"]
	for _, fn := range append([]*ssa.Function{}, w.AllFuncs...) {
		w.indexMapKeyClosures(fn)
	}
	// named types
	for _, p := range pkgs {
		if !w.isRepoPkg(p.PkgPath) {
			continue
		}
		sc := p.Types.Scope()
		for _, n := range sc.Names() {
			if tn, ok := sc.Lookup(n).(*types.TypeName); ok {
				if nt, ok := tn.Type().(*types.Named); ok {
					w.Named = append(w.Named, nt)
				}
			}
		}
		// contract files
		for _, f := range p.Syntax {
			fname := p.Fset.Position(f.Pos()).Filename
			if strings.HasSuffix(fname, "zz_contracts_verif.go") {
				w.ContractFiles[shortPkg(p.PkgPath)] = contractLines(f)
			}
		}
	}
	sort.Slice(w.Named, func(i, j int) bool { return w.Named[i].String() < w.Named[j].String() })
	return w, nil
}

func contractLines(f *ast.File) []string {
	var out []string
	for _, cg := range f.Comments {
		for _, c := range cg.List {
			t := c.Text
			if strings.HasPrefix(t, "//@") {
				out = append(out, strings.TrimRight(t[3:], " \t"))
			}
		}
	}
	return out
}

func fnPkg(fn *ssa.Function) *ssa.Package {
	for f := fn; f != nil; f = f.Parent() {
		if f.Pkg != nil {
			return f.Pkg
		}
	}
	return nil
}

func (w *World) isRepoPkg(path string) bool {
	return strings.HasPrefix(path, repoMod) || strings.Contains(path, "macrat/simplexer")
}

// keyOf: pkg.Func, pkg.(*T).Method, pkg.Func$1
func (w *World) keyOf(fn *ssa.Function) string {
	if fn.Parent() != nil {
		return w.keyOf(fn.Parent()) + fn.Name()[strings.LastIndex(fn.Name(), "$"):]
	}
	pk := shortPkg(fnPkg(fn).Pkg.Path())
	if recv := fn.Signature.Recv(); recv != nil {
		t := recv.Type()
		star := ""
		if p, ok := t.(*types.Pointer); ok {
			t = p.Elem()
			star = "*"
		}
		if n, ok := t.(*types.Named); ok {
			return fmt.Sprintf("%s.(%s%s).%s", pk, star, n.Obj().Name(), fn.Name())
		}
	}
	return pk + "." + fn.Name()
}

// indexMapKeyClosures registers props.IntProps["+"] style aliases.
func (w *World) indexMapKeyClosures(fn *ssa.Function) {
	if fn.Parent() != nil {
		return
	}
	base := w.FuncKey[fn]
	for _, b := range fn.Blocks {
		for _, ins := range b.Instrs {
			mu, ok := ins.(*ssa.MapUpdate)
			if !ok {
				continue
			}
			k, ok := mu.Key.(*ssa.Const)
			if !ok || k.Value == nil || !isStringType(k.Type()) {
				continue
			}
			target := closureOf(mu.Value)
			if target == nil || target.Parent() == nil {
				continue // named functions keep their own key
			}
			ks := strings.Trim(k.Value.ExactString(), "\"")
			alias := fmt.Sprintf("%s[%q]", base, ks)
			if _, dup := w.Funcs[alias]; !dup {
				w.Funcs[alias] = target
				// prefer alias as the display key
				w.FuncKey[target] = alias
			}
		}
	}
}

func isStringType(t types.Type) bool {
	b, ok := t.Underlying().(*types.Basic)
	return ok && b.Info()&types.IsString != 0
}

// closureOf strips MakeInterface / f(...) / ChangeType / MakeClosure down to a function.
func closureOf(v ssa.Value) *ssa.Function {
	for i := 0; i < 8; i++ {
		switch x := v.(type) {
		case *ssa.MakeInterface:
			v = x.X
		case *ssa.ChangeInterface:
			v = x.X
		case *ssa.ChangeType:
			v = x.X
		case *ssa.Call:
			if len(x.Call.Args) >= 1 && x.Call.Method == nil {
				v = x.Call.Args[0]
			} else {
				return nil
			}
		case *ssa.MakeClosure:
			return x.Fn.(*ssa.Function)
		case *ssa.Function:
			return x
		default:
			return nil
		}
	}
	return nil
}

// ---- type tags (for dtype) ----

func (w *World) TypeTag(t types.Type) int {
	s := types.TypeString(t, nil)
	if id, ok := w.typeTags[s]; ok {
		return id
	}
	id := len(w.typeTags) + 1
	w.typeTags[s] = id
	w.tagTypes = append(w.tagTypes, t)
	return id
}

// Implementers of a repo interface: concrete types (T or *T) among repo named types.
func (w *World) Implementers(iface *types.Interface) []types.Type {
	w.mu.Lock()
	defer w.mu.Unlock()
	if w.implCache == nil {
		w.implCache = map[*types.Interface][]types.Type{}
	}
	if r, ok := w.implCache[iface]; ok {
		return r
	}
	out := w.implementers(iface)
	w.implCache[iface] = out
	return out
}

func (w *World) implementers(iface *types.Interface) []types.Type {
	var out []types.Type
	for _, n := range w.Named {
		if _, isI := n.Underlying().(*types.Interface); isI {
			continue
		}
		if types.Implements(n, iface) {
			out = append(out, n)
		} else if p := types.NewPointer(n); types.Implements(p, iface) {
			out = append(out, p)
		}
	}
	return out
}

func (w *World) isRepoInterface(t types.Type) bool {
	n, ok := t.(*types.Named)
	if !ok {
		return false
	}
	if n.Obj().Pkg() == nil {
		return false
	}
	return w.isRepoPkg(n.Obj().Pkg().Path())
}

// LookupType resolves "pkg.Name", "*pkg.Name", "[]T", basic names.
func (w *World) LookupType(s string, defaultPkg string) (types.Type, error) {
	s = strings.TrimSpace(s)
	if strings.HasPrefix(s, "*") {
		t, err := w.LookupType(s[1:], defaultPkg)
		if err != nil {
			return nil, err
		}
		return types.NewPointer(t), nil
	}
	if strings.HasPrefix(s, "map[") {
		depth, end := 0, -1
		for i := 3; i < len(s); i++ {
			if s[i] == '[' {
				depth++
			}
			if s[i] == ']' {
				depth--
				if depth == 0 {
					end = i
					break
				}
			}
		}
		if end < 0 {
			return nil, fmt.Errorf("bad map type %q", s)
		}
		kt, err := w.LookupType(s[4:end], defaultPkg)
		if err != nil {
			return nil, err
		}
		vt, err := w.LookupType(s[end+1:], defaultPkg)
		if err != nil {
			return nil, err
		}
		return types.NewMap(kt, vt), nil
	}
	if strings.HasPrefix(s, "[]") {
		t, err := w.LookupType(s[2:], defaultPkg)
		if err != nil {
			return nil, err
		}
		return types.NewSlice(t), nil
	}
	if obj := types.Universe.Lookup(s); obj != nil {
		if tn, ok := obj.(*types.TypeName); ok {
			return tn.Type(), nil
		}
	}
	pk, name := defaultPkg, s
	if i := strings.Index(s, "."); i >= 0 {
		pk, name = s[:i], s[i+1:]
	}
	p := w.PkgByID[pk]
	if p == nil {
		return nil, fmt.Errorf("unknown package %q in type %q", pk, s)
	}
	obj := p.Types.Scope().Lookup(name)
	if obj == nil {
		return nil, fmt.Errorf("unknown type %q", s)
	}
	tn, ok := obj.(*types.TypeName)
	if !ok {
		return nil, fmt.Errorf("%q is not a type", s)
	}
	return tn.Type(), nil
}

// LookupGlobal resolves pkg.Name to an ssa.Global / Function / const.
func (w *World) LookupMember(pk, name string) ssa.Member {
	sp := w.SSAPkgs[pk]
	if sp == nil {
		return nil
	}
	return sp.Members[name]
}
