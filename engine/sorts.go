package main

import (
	"fmt"
	"go/types"
	"hash/fnv"
	"sort"
	"strings"
)

// Sorts maps Go types to SMT sorts and records the declarations a query needs.
//
//	ints, refs (pointers, interfaces, maps, funcs, chans)  -> Int
//	bool -> Bool, string -> Str, float -> F64
//	slice -> Slice (arr, off, len, cap)
//	struct (by value) -> datatype S_<name>
//	[N]T -> (Array Int sort(T))
type Sorts struct {
	w        *World
	structs  map[string]*structSort
	order    []string // declaration order of struct sorts
	anonSeq  int
	anonName map[string]string
	constArr func(elemSort, zero string) string
}

type structSort struct {
	name   string
	fields []string // accessor names
	sorts  []string
	gotype *types.Struct
}

func NewSorts(w *World) *Sorts {
	return &Sorts{w: w, structs: map[string]*structSort{}, anonName: map[string]string{}}
}

func sanitize(s string) string {
	var b strings.Builder
	for _, r := range s {
		switch {
		case r >= 'a' && r <= 'z', r >= 'A' && r <= 'Z', r >= '0' && r <= '9', r == '_':
			b.WriteRune(r)
		case r == '*':
			b.WriteString("P")
		case r == '.', r == '/':
			b.WriteString("_")
		case r == '[':
			b.WriteString("L")
		case r == ']':
			b.WriteString("R")
		default:
			b.WriteString("_")
		}
	}
	return b.String()
}

func shortTypeName(t types.Type) string {
	return sanitize(types.TypeString(t, func(p *types.Package) string { return p.Name() }))
}

func isRefLike(t types.Type) bool {
	switch u := t.Underlying().(type) {
	case *types.Pointer, *types.Interface, *types.Map, *types.Chan, *types.Signature:
		return true
	case *types.Basic:
		return u.Kind() == types.UnsafePointer || u.Kind() == types.UntypedNil
	}
	return false
}

func isIntLike(t types.Type) bool {
	b, ok := t.Underlying().(*types.Basic)
	return ok && b.Info()&types.IsInteger != 0
}

func isFloat(t types.Type) bool {
	b, ok := t.Underlying().(*types.Basic)
	return ok && b.Info()&(types.IsFloat|types.IsComplex) != 0
}

func isBool(t types.Type) bool {
	b, ok := t.Underlying().(*types.Basic)
	return ok && b.Info()&types.IsBoolean != 0
}

func (s *Sorts) Of(t types.Type) string {
	switch u := t.Underlying().(type) {
	case *types.Basic:
		switch {
		case u.Info()&types.IsBoolean != 0:
			return "Bool"
		case u.Info()&types.IsInteger != 0:
			return "Int"
		case u.Info()&types.IsString != 0:
			return "Str"
		case u.Info()&(types.IsFloat|types.IsComplex) != 0:
			return "F64"
		}
		return "Int"
	case *types.Pointer, *types.Interface, *types.Map, *types.Chan, *types.Signature:
		return "Int"
	case *types.Slice:
		return "Slice"
	case *types.Array:
		return "(Array Int " + s.Of(u.Elem()) + ")"
	case *types.Struct:
		return s.structSortOf(t, u).name
	case *types.Tuple:
		return "TUPLE"
	}
	return "Int"
}

func (s *Sorts) structSortOf(t types.Type, u *types.Struct) *structSort {
	var name string
	if n, ok := t.(*types.Named); ok {
		name = "S_" + shortTypeName(n)
	} else {
		k := u.String()
		if nm, ok := s.anonName[k]; ok {
			name = nm
		} else {
			h := fnv.New32a()
			h.Write([]byte(k))
			name = fmt.Sprintf("S_anon%08x", h.Sum32())
			s.anonName[k] = name
		}
	}
	if ss, ok := s.structs[name]; ok {
		return ss
	}
	ss := &structSort{name: name, gotype: u}
	s.structs[name] = ss // register early (recursive by-value structs are impossible in Go)
	for i := 0; i < u.NumFields(); i++ {
		f := u.Field(i)
		ss.fields = append(ss.fields, fmt.Sprintf("%s_%s", name, sanitize(f.Name())))
		ss.sorts = append(ss.sorts, s.Of(f.Type()))
	}
	s.order = append(s.order, name)
	return ss
}

// Decls returns the datatype declarations in dependency order.
func (s *Sorts) Decls() string {
	var b strings.Builder
	for _, n := range s.order {
		ss := s.structs[n]
		fmt.Fprintf(&b, "(declare-datatypes ((%s 0)) (((mk_%s", n, n)
		for i, f := range ss.fields {
			fmt.Fprintf(&b, " (%s %s)", f, ss.sorts[i])
		}
		if len(ss.fields) == 0 {
			// empty struct: a unit constructor
		}
		b.WriteString("))))\n")
	}
	return b.String()
}

func (s *Sorts) MkStruct(t types.Type, fields []string) string {
	ss := s.structSortOf(t, t.Underlying().(*types.Struct))
	if len(ss.fields) == 0 {
		return "mk_" + ss.name
	}
	return "(mk_" + ss.name + " " + strings.Join(fields, " ") + ")"
}

func (s *Sorts) FieldAcc(t types.Type, i int) string {
	ss := s.structSortOf(t, t.Underlying().(*types.Struct))
	return ss.fields[i]
}

// ---- heap array names ----

// FieldArray is the heap array of field i of struct type t (pointer-to-struct objects).
func (s *Sorts) FieldArray(t types.Type, i int) (name, elemSort string) {
	u := t.Underlying().(*types.Struct)
	tn := shortTypeName(t)
	if _, ok := t.(*types.Named); !ok {
		tn = s.structSortOf(t, u).name
	}
	return fmt.Sprintf("H_%s_%s", tn, sanitize(u.Field(i).Name())), s.Of(u.Field(i).Type())
}

func sortTag(sort string) string {
	return sanitize(strings.NewReplacer("(", "", ")", "", " ", "_").Replace(sort))
}

// Heap arrays are keyed by Go type (after resolving aliases): slices of different element types can
// never share a backing array, maps of different types are different objects, so the partition is sound
// and gives frame conditions per kind of memory.
func typeKey(t types.Type) string { return shortTypeName(types.Unalias(t)) }

// ElemArrayT: backing arrays of slices/arrays with element type t.
func (s *Sorts) ElemArrayT(t types.Type) string { return "E_" + typeKey(t) }

// CellArrayT: pointer-to-non-struct cells (address-taken variables) with content type t.
func (s *Sorts) CellArrayT(t types.Type) string { return "C_" + typeKey(t) }

// Map arrays (presence, value, length) per map type.
func mapKey(mt *types.Map) string             { return typeKey(mt.Key()) + "__" + typeKey(mt.Elem()) }
func (s *Sorts) MapHasT(mt *types.Map) string { return "MH_" + mapKey(mt) }
func (s *Sorts) MapValT(mt *types.Map) string { return "MV_" + mapKey(mt) }
func (s *Sorts) MapLenT(mt *types.Map) string { return "ML_" + mapKey(mt) }

// zero value term of a type
func (s *Sorts) Zero(t types.Type) string {
	switch u := t.Underlying().(type) {
	case *types.Basic:
		switch {
		case u.Info()&types.IsBoolean != 0:
			return "false"
		case u.Info()&types.IsString != 0:
			return "str_empty"
		case u.Info()&(types.IsFloat|types.IsComplex) != 0:
			return "f64_zero"
		}
		return "0"
	case *types.Slice:
		return "nil_slice"
	case *types.Struct:
		var fs []string
		for i := 0; i < u.NumFields(); i++ {
			fs = append(fs, s.Zero(u.Field(i).Type()))
		}
		return s.MkStruct(t, fs)
	case *types.Array:
		if s.constArr != nil {
			return s.constArr(s.Of(u.Elem()), s.Zero(u.Elem()))
		}
		return fmt.Sprintf("((as const %s) %s)", s.Of(t), s.Zero(u.Elem()))
	}
	return "0"
}

func sortedKeys[V any](m map[string]V) []string {
	ks := make([]string, 0, len(m))
	for k := range m {
		ks = append(ks, k)
	}
	sort.Strings(ks)
	return ks
}
