package main

import (
	"fmt"
	"go/scanner"
	"go/token"
	"strings"
)

// ---- spec expression AST ----

type SExpr interface{ String() string }

type (
	SIdent struct{ Name string }
	SInt   struct{ V string }
	SStr   struct{ V string }
	SBool  struct{ V bool }
	SNil   struct{}
	SSel   struct {
		X   SExpr
		Sel string
	}
	SIndex struct{ X, I SExpr }
	SSlice struct{ X, Lo, Hi SExpr }
	SCall  struct {
		Fun     SExpr
		Args    []SExpr
		TypeArg string
	}
	SUn struct {
		Op string
		X  SExpr
	}
	SBin struct {
		Op   string
		X, Y SExpr
	}
	SCond  struct{ C, A, B SExpr }
	SQuant struct {
		Forall bool
		Vars   []SVar
		Body   SExpr
		Trigs  [][]SExpr
	}
	SDeref struct{ X SExpr }
	SOld   struct{ X SExpr }
)

type SVar struct{ Name, Type string }

func (e *SIdent) String() string { return e.Name }
func (e *SInt) String() string   { return e.V }
func (e *SStr) String() string   { return fmt.Sprintf("%q", e.V) }
func (e *SBool) String() string  { return fmt.Sprint(e.V) }
func (e *SNil) String() string   { return "nil" }
func (e *SSel) String() string   { return e.X.String() + "." + e.Sel }
func (e *SIndex) String() string { return e.X.String() + "[" + e.I.String() + "]" }
func (e *SSlice) String() string { return e.X.String() + "[:]" }
func (e *SCall) String() string {
	var a []string
	for _, x := range e.Args {
		a = append(a, x.String())
	}
	if e.TypeArg != "" {
		a = append(a, e.TypeArg)
	}
	return e.Fun.String() + "(" + strings.Join(a, ", ") + ")"
}
func (e *SUn) String() string  { return e.Op + e.X.String() }
func (e *SBin) String() string { return "(" + e.X.String() + " " + e.Op + " " + e.Y.String() + ")" }
func (e *SCond) String() string {
	return "(" + e.C.String() + " ? " + e.A.String() + " : " + e.B.String() + ")"
}
func (e *SQuant) String() string {
	q := "exists"
	if e.Forall {
		q = "forall"
	}
	var vs []string
	for _, v := range e.Vars {
		vs = append(vs, v.Name+" "+v.Type)
	}
	return "(" + q + " " + strings.Join(vs, ", ") + " :: " + e.Body.String() + ")"
}
func (e *SDeref) String() string { return "*" + e.X.String() }
func (e *SOld) String() string   { return "old(" + e.X.String() + ")" }

// ---- tokenizer (go/scanner) ----

type stok struct {
	tok token.Token
	lit string
	pos int
}

type sparser struct {
	src  string
	toks []stok
	i    int
}

func lexSpec(src string) ([]stok, error) {
	fset := token.NewFileSet()
	f := fset.AddFile("spec", -1, len(src))
	var s scanner.Scanner
	var errs []string
	s.Init(f, []byte(src), func(pos token.Position, msg string) {
		if strings.Contains(msg, "U+003F") {
			return
		}
		errs = append(errs, msg)
	}, 0)
	var out []stok
	for {
		pos, tok, lit := s.Scan()
		if tok == token.EOF {
			break
		}
		if tok == token.SEMICOLON && lit == "\n" {
			continue
		}
		out = append(out, stok{tok, lit, int(pos) - f.Base()})
	}
	if len(errs) > 0 {
		return nil, fmt.Errorf("lex %q: %s", src, strings.Join(errs, "; "))
	}
	return out, nil
}

func ParseSpec(src string) (e SExpr, err error) {
	toks, err := lexSpec(src)
	if err != nil {
		return nil, err
	}
	p := &sparser{src: src, toks: toks}
	defer func() {
		if r := recover(); r != nil {
			if pe, ok := r.(parseErr); ok {
				err = fmt.Errorf("parse %q: %s", src, string(pe))
				return
			}
			panic(r)
		}
	}()
	e = p.parseTop()
	if p.i < len(p.toks) {
		p.fail("trailing tokens at %q", p.toks[p.i].lit+p.toks[p.i].tok.String())
	}
	return e, nil
}

type parseErr string

func (p *sparser) fail(f string, a ...interface{}) { panic(parseErr(fmt.Sprintf(f, a...))) }

func (p *sparser) peek() stok {
	if p.i < len(p.toks) {
		return p.toks[p.i]
	}
	return stok{tok: token.EOF}
}
func (p *sparser) next() stok { t := p.peek(); p.i++; return t }
func (p *sparser) accept(t token.Token) bool {
	if p.peek().tok == t {
		p.i++
		return true
	}
	return false
}
func (p *sparser) expect(t token.Token) stok {
	if p.peek().tok != t {
		p.fail("expected %s, got %s %q", t, p.peek().tok, p.peek().lit)
	}
	return p.next()
}

// adjacency helpers for ==> and <==> and ::
func (p *sparser) isImplies() bool {
	if p.i+1 < len(p.toks) {
		a, b := p.toks[p.i], p.toks[p.i+1]
		return a.tok == token.EQL && b.tok == token.GTR && b.pos == a.pos+2
	}
	return false
}
func (p *sparser) isIff() bool {
	if p.i+1 < len(p.toks) {
		a, b := p.toks[p.i], p.toks[p.i+1]
		if a.tok == token.LEQ && b.tok == token.ASSIGN && b.pos == a.pos+2 && p.i+2 < len(p.toks) {
			c := p.toks[p.i+2]
			return c.tok == token.GTR && c.pos == b.pos+1
		}
	}
	return false
}

func (p *sparser) parseTop() SExpr {
	t := p.peek()
	if t.tok == token.IDENT && (t.lit == "forall" || t.lit == "exists") {
		return p.parseQuant()
	}
	return p.parseImpl()
}

func (p *sparser) parseQuant() SExpr {
	q := p.next()
	sq := &SQuant{Forall: q.lit == "forall"}
	for {
		name := p.expect(token.IDENT).lit
		typ := "int"
		// optional type: tokens until ',' or '::'
		var tt []string
		for {
			t := p.peek()
			if t.tok == token.COMMA || t.tok == token.COLON || t.tok == token.EOF {
				break
			}
			p.next()
			if t.lit != "" {
				tt = append(tt, t.lit)
			} else {
				tt = append(tt, t.tok.String())
			}
		}
		if len(tt) > 0 {
			typ = strings.Join(tt, "")
		}
		sq.Vars = append(sq.Vars, SVar{name, typ})
		if !p.accept(token.COMMA) {
			break
		}
	}
	p.expect(token.COLON)
	p.expect(token.COLON)
	// optional triggers: { e1, e2 } { e3 } ... (each group is one multi-pattern)
	for p.peek().tok == token.LBRACE {
		p.next()
		var grp []SExpr
		for {
			grp = append(grp, p.parseOr())
			if !p.accept(token.COMMA) {
				break
			}
		}
		p.expect(token.RBRACE)
		sq.Trigs = append(sq.Trigs, grp)
	}
	sq.Body = p.parseTop()
	return sq
}

func (p *sparser) parseImpl() SExpr {
	l := p.parseCond()
	if p.isImplies() {
		p.i += 2
		r := p.parseTop()
		return &SBin{"==>", l, r}
	}
	if p.isIff() {
		p.i += 3
		r := p.parseCond()
		return &SBin{"<==>", l, r}
	}
	return l
}

func (p *sparser) parseCond() SExpr {
	c := p.parseOr()
	if p.peek().tok == token.ILLEGAL && p.peek().lit == "?" {
		p.next()
		a := p.parseCond()
		p.expect(token.COLON)
		b := p.parseCond()
		return &SCond{c, a, b}
	}
	return c
}

func (p *sparser) parseOr() SExpr {
	l := p.parseAnd()
	for p.peek().tok == token.LOR {
		p.next()
		l = &SBin{"||", l, p.parseAnd()}
	}
	return l
}
func (p *sparser) parseAnd() SExpr {
	l := p.parseCmp()
	for p.peek().tok == token.LAND {
		p.next()
		l = &SBin{"&&", l, p.parseCmp()}
	}
	return l
}
func (p *sparser) parseCmp() SExpr {
	l := p.parseAdd()
	for {
		if p.isImplies() || p.isIff() {
			return l
		}
		switch p.peek().tok {
		case token.EQL, token.NEQ, token.LSS, token.LEQ, token.GTR, token.GEQ:
			op := p.next().tok.String()
			r := p.parseAdd()
			l = &SBin{op, l, r}
		default:
			return l
		}
	}
}
func (p *sparser) parseAdd() SExpr {
	l := p.parseMul()
	for {
		switch p.peek().tok {
		case token.ADD, token.SUB:
			op := p.next().tok.String()
			l = &SBin{op, l, p.parseMul()}
		default:
			return l
		}
	}
}
func (p *sparser) parseMul() SExpr {
	l := p.parseUnary()
	for {
		switch p.peek().tok {
		case token.MUL, token.QUO, token.REM:
			op := p.next().tok.String()
			l = &SBin{op, l, p.parseUnary()}
		default:
			return l
		}
	}
}
func (p *sparser) parseUnary() SExpr {
	switch p.peek().tok {
	case token.NOT:
		p.next()
		return &SUn{"!", p.parseUnary()}
	case token.SUB:
		p.next()
		return &SUn{"-", p.parseUnary()}
	case token.MUL:
		p.next()
		return &SDeref{p.parseUnary()}
	}
	return p.parsePostfix()
}

var typeArgFuncs = map[string]bool{"isT": true, "as": true, "tag": true}

func (p *sparser) parsePostfix() SExpr {
	e := p.parsePrimary()
	for {
		switch p.peek().tok {
		case token.PERIOD:
			p.next()
			e = &SSel{e, p.expect(token.IDENT).lit}
		case token.LBRACK:
			p.next()
			if p.accept(token.COLON) {
				var hi SExpr
				if p.peek().tok != token.RBRACK {
					hi = p.parseTop()
				}
				p.expect(token.RBRACK)
				e = &SSlice{e, nil, hi}
				continue
			}
			i := p.parseTop()
			if p.accept(token.COLON) {
				var hi SExpr
				if p.peek().tok != token.RBRACK {
					hi = p.parseTop()
				}
				p.expect(token.RBRACK)
				e = &SSlice{e, i, hi}
				continue
			}
			p.expect(token.RBRACK)
			e = &SIndex{e, i}
		case token.LPAREN:
			p.next()
			c := &SCall{Fun: e}
			fname := ""
			if id, ok := e.(*SIdent); ok {
				fname = id.Name
			}
			for p.peek().tok != token.RPAREN {
				if typeArgFuncs[fname] && (len(c.Args) == 1 || fname == "tag") {
					// type argument: raw text until matching ')'
					depth := 0
					var tt []string
					for {
						t := p.peek()
						if t.tok == token.EOF {
							p.fail("unterminated type argument")
						}
						if t.tok == token.RPAREN && depth == 0 {
							break
						}
						if t.tok == token.LPAREN {
							depth++
						}
						if t.tok == token.RPAREN {
							depth--
						}
						p.next()
						if t.lit != "" {
							tt = append(tt, t.lit)
						} else {
							tt = append(tt, t.tok.String())
						}
					}
					c.TypeArg = strings.Join(tt, "")
					break
				}
				c.Args = append(c.Args, p.parseTop())
				if !p.accept(token.COMMA) {
					break
				}
			}
			p.expect(token.RPAREN)
			if fname == "old" && len(c.Args) == 1 {
				e = &SOld{c.Args[0]}
			} else {
				e = c
			}
		default:
			return e
		}
	}
}

func (p *sparser) parsePrimary() SExpr {
	t := p.next()
	switch t.tok {
	case token.IDENT:
		switch t.lit {
		case "true":
			return &SBool{true}
		case "false":
			return &SBool{false}
		case "nil":
			return &SNil{}
		case "forall", "exists":
			p.i--
			return p.parseQuant()
		}
		return &SIdent{t.lit}
	case token.INT:
		return &SInt{strings.ReplaceAll(t.lit, "_", "")}
	case token.STRING:
		s := t.lit
		if len(s) >= 2 {
			if s[0] == '`' {
				s = s[1 : len(s)-1]
			} else {
				var err error
				s, err = unquote(s)
				if err != nil {
					p.fail("bad string %s", t.lit)
				}
			}
		}
		return &SStr{s}
	case token.LPAREN:
		e := p.parseTop()
		p.expect(token.RPAREN)
		return e
	case token.FUNC, token.TYPE, token.RANGE, token.MAP:
		return &SIdent{t.lit}
	}
	p.fail("unexpected token %s %q", t.tok, t.lit)
	return nil
}

func unquote(s string) (string, error) {
	// strconv.Unquote without importing strconv at top (keep imports tidy)
	return strconvUnquote(s)
}

// ---- contract files ----

type LoopSpec struct {
	Ordinal    int
	Invariants []SpecClause
	Steps      []SpecClause
}

type SpecClause struct {
	Text string
	Expr SExpr
	Name string // optional label
	Only string // property id: the clause is an obligation (and an assumption at call sites) only in that property's check
}

type ParamSpec struct {
	Name    string
	Pure    string // name of the spec function modelling it, if pure
	CallPre []SpecClause
	Ensures []SpecClause
	Assigns string
}

type Contract struct {
	Key        string
	Pkg        string
	ParamNames []string
	ResNames   []string
	Requires   []SpecClause
	Ensures    []SpecClause
	Assigns    []string // raw; "nothing" or list
	HasAssigns bool
	Loops      map[int]*LoopSpec
	Params     map[string]*ParamSpec
	Lets       []LetSpec
	Inline     bool
	Trusted    bool     // contract is assumed, body not verified (listed as assumption)
	Props      []string // property ids this contract serves
	Lines      []string
	NoSafe     bool
	Uses       []string // names of opt-in axioms this function's verification needs
	Track      []SpecClause
}

type LetSpec struct {
	Name string
	Expr SExpr
	Text string
}

type SpecFun struct {
	Name    string
	Pkg     string
	Params  []SVar
	Result  string
	Body    SExpr // optional definition
	BodyTxt string
	Macro   bool // expanded at every use in the evaluation state (may read the heap)
}

type Axiom struct {
	Name   string
	Pkg    string
	Expr   SExpr
	Text   string
	Kind   string // "axiom" | "lemma"
	Props  []string
	Global bool // asserted in every verification; otherwise only where a contract says `uses <name>`
}

type GlobalInv struct {
	Pkg  string
	Expr SExpr
	Text string
}

type FinalDecl struct {
	Field   string // pkg.Type.field
	Writers []string
	Why     string
}

type TypeInv struct {
	Assumed bool   // only assumed of incoming objects, never checked at allocation (listed as an assumption)
	Type    string // pkg.Name
	Pkg     string
	Expr    SExpr
	Text    string
}

type ParamInv struct {
	Name string
	Pkg  string
	Expr SExpr
	Text string
}

type Specs struct {
	Traced          map[string]bool // function keys whose direct calls are recorded in the ghost call log
	ParamInvs       []*ParamInv
	TypeInvs        []*TypeInv
	ValueResultPkgs []string          // packages whose functions with the single result object.PanObject return a value (isVal)
	FrameEC         []string          // designators of the memory an evaluating function may write on pre-existing objects
	DefaultFrame    map[string]string // package -> "EC": functions of the package without an assigns clause are held to (and assumed to have) that frame
	FramePureFuncs  []string          // function types whose values write no pre-existing memory at all
	FrameECFuncs    []string          // function types whose values all satisfy the EC frame (proved for every such function)
	Finals          []FinalDecl
	Contracts       map[string]*Contract
	Order           []string
	SpecFuns        map[string]*SpecFun
	Axioms          []*Axiom
	Lemmas          []*Axiom
	GlobalInvs      []*GlobalInv
	GuardedBy       map[string]string // global var -> lock global
	SharedErrs      map[string]bool   // package-level error objects every evaluation can obtain (declared: shared_errors)
	ProcessState    map[string]bool   // package-level variables that change after initialisation (declared: process_state)
	Errors          []string
}

func ParseSpecs(w *World) *Specs {
	sp := &Specs{Contracts: map[string]*Contract{}, SpecFuns: map[string]*SpecFun{}, GuardedBy: map[string]string{}}
	for _, pk := range sortedKeys(w.ContractFiles) {
		sp.parseFile(pk, w.ContractFiles[pk])
	}
	return sp
}

func (sp *Specs) errf(f string, a ...interface{}) {
	sp.Errors = append(sp.Errors, fmt.Sprintf(f, a...))
}

func (sp *Specs) parseFile(pkg string, lines []string) {
	// join continuation lines: a line starting with more indentation and not a keyword continues previous clause.
	var cur *Contract
	var curProps []string
	clause := func(text string) SpecClause {
		name := ""
		e, err := ParseSpec(text)
		if err != nil {
			sp.errf("%s: %v", pkg, err)
		}
		return SpecClause{Text: text, Expr: e, Name: name}
	}
	// merge continuations: lines beginning with "|" continue the previous line
	var merged []string
	for _, l := range lines {
		t := strings.TrimSpace(l)
		if strings.HasPrefix(t, "|") && len(merged) > 0 {
			merged[len(merged)-1] += " " + strings.TrimSpace(t[1:])
			continue
		}
		merged = append(merged, t)
	}
	for _, t := range merged {
		if t == "" || strings.HasPrefix(t, "#") {
			continue
		}
		// strip trailing comment " // ..."
		if i := strings.Index(t, " // "); i >= 0 {
			t = strings.TrimSpace(t[:i])
		}
		word, rest := t, ""
		if i := strings.IndexAny(t, " \t"); i >= 0 {
			word, rest = t[:i], strings.TrimSpace(t[i+1:])
		}
		if strings.HasSuffix(word, ":") && (word == "valueresults:" || word == "traced:" || word == "shared_errors:" || word == "process_state:") {
			word = strings.TrimSuffix(word, ":")
		}
		switch word {
		case "props":
			// tags the contracts that FOLLOW (an earlier version also re-tagged the contract just before the line,
			// which silently moved the last contract of every section to the next section's properties)
			curProps = strings.Fields(strings.ReplaceAll(rest, ",", " "))
			cur = nil
		case "also":
			// also C14 C08: further properties whose check verifies this one contract
			if cur != nil {
				cur.Props = append(append([]string{}, cur.Props...), strings.Fields(strings.ReplaceAll(rest, ",", " "))...)
			}
		case "func":
			cur = parseFuncHeader(rest, pkg)
			if cur == nil {
				sp.errf("%s: bad func header %q", pkg, rest)
				continue
			}
			if _, dup := sp.Contracts[cur.Key]; dup {
				sp.errf("%s: duplicate contract %s", pkg, cur.Key)
			}
			cur.Props = curProps
			sp.Contracts[cur.Key] = cur
			sp.Order = append(sp.Order, cur.Key)
		case "requires":
			if cur != nil {
				cur.Requires = append(cur.Requires, clause(rest))
			}
		case "ensures":
			if cur != nil {
				cur.Ensures = append(cur.Ensures, clause(rest))
			}
		case "ensures_in":
			// ensures_in C19: expr   - a postcondition that belongs to one property's check only (a function shared by
			// several properties keeps their obligations apart)
			if cur != nil {
				if i := strings.Index(rest, ":"); i > 0 {
					cl := clause(strings.TrimSpace(rest[i+1:]))
					cl.Only = strings.TrimSpace(rest[:i])
					cur.Ensures = append(cur.Ensures, cl)
				} else {
					sp.errf("%s: bad ensures_in %q", pkg, rest)
				}
			}
		case "assigns":
			if cur != nil {
				cur.HasAssigns = true
				if rest != "nothing" {
					for _, a := range strings.Split(rest, ",") {
						cur.Assigns = append(cur.Assigns, strings.TrimSpace(a))
					}
				}
			}
		case "uses":
			if cur != nil {
				for _, u := range splitTop(rest) {
					cur.Uses = append(cur.Uses, strings.TrimSpace(u))
				}
			}
		case "track":
			if cur != nil {
				for _, t := range splitTop(rest) {
					cur.Track = append(cur.Track, clause(t))
				}
			}
		case "inline":
			if cur != nil {
				cur.Inline = true
			}
		case "trusted":
			if cur != nil {
				cur.Trusted = true
			}
		case "nosafe":
			if cur != nil {
				cur.NoSafe = true
			}
		case "let":
			if cur != nil {
				i := strings.Index(rest, ":=")
				if i < 0 {
					sp.errf("%s: bad let %q", pkg, rest)
					continue
				}
				c := clause(strings.TrimSpace(rest[i+2:]))
				cur.Lets = append(cur.Lets, LetSpec{Name: strings.TrimSpace(rest[:i]), Expr: c.Expr, Text: c.Text})
			}
		case "loop":
			if cur == nil {
				continue
			}
			var n int
			var kind string
			f := strings.Fields(rest)
			if len(f) < 3 {
				sp.errf("%s: bad loop clause %q", pkg, rest)
				continue
			}
			fmt.Sscanf(f[0], "%d", &n)
			kind = f[1]
			body := strings.TrimSpace(strings.SplitN(rest, kind, 2)[1])
			if cur.Loops == nil {
				cur.Loops = map[int]*LoopSpec{}
			}
			ls := cur.Loops[n]
			if ls == nil {
				ls = &LoopSpec{Ordinal: n}
				cur.Loops[n] = ls
			}
			switch kind {
			case "invariant":
				ls.Invariants = append(ls.Invariants, clause(body))
			case "step":
				// relation between the start of an iteration (prev(e)) and its end; checked at every back edge
				ls.Steps = append(ls.Steps, clause(body))
			case "decreases":
				// recorded only
			default:
				sp.errf("%s: unknown loop clause kind %q", pkg, kind)
			}
		case "param":
			if cur == nil {
				continue
			}
			// param NAME: pure F; callpre EXPR; ensures EXPR; assigns X
			i := strings.Index(rest, ":")
			if i < 0 {
				sp.errf("%s: bad param %q", pkg, rest)
				continue
			}
			ps := &ParamSpec{Name: strings.TrimSpace(rest[:i])}
			for _, part := range strings.Split(rest[i+1:], ";") {
				part = strings.TrimSpace(part)
				switch {
				case strings.HasPrefix(part, "pure "):
					ps.Pure = strings.TrimSpace(part[5:])
				case strings.HasPrefix(part, "callpre "):
					ps.CallPre = append(ps.CallPre, clause(strings.TrimSpace(part[8:])))
				case strings.HasPrefix(part, "ensures "):
					ps.Ensures = append(ps.Ensures, clause(strings.TrimSpace(part[8:])))
				case strings.HasPrefix(part, "assigns "):
					ps.Assigns = strings.TrimSpace(part[8:])
				case part == "":
				default:
					sp.errf("%s: bad param part %q", pkg, part)
				}
			}
			if cur.Params == nil {
				cur.Params = map[string]*ParamSpec{}
			}
			cur.Params[ps.Name] = ps
		case "spec":
			// spec fun name(a T, b T) R [= expr]
			isMacro := strings.HasPrefix(rest, "macro")
			rest = strings.TrimSpace(strings.TrimPrefix(strings.TrimPrefix(rest, "fun"), "macro"))
			sf := parseSpecFun(rest, pkg)
			if sf != nil {
				sf.Macro = isMacro
			}
			if sf == nil {
				sp.errf("%s: bad spec fun %q", pkg, rest)
				continue
			}
			if sf.BodyTxt != "" {
				e, err := ParseSpec(sf.BodyTxt)
				if err != nil {
					sp.errf("%s: %v", pkg, err)
				}
				sf.Body = e
				// a defined, non-recursive spec function is expanded where it is used, in the state it is used
				// in (a define-fun would freeze heap reads such as args[i] to the entry state)
				if !strings.Contains(sf.BodyTxt, sf.Name+"(") {
					sf.Macro = true
				}
			}
			sp.SpecFuns[sf.Name] = sf
			cur = nil
		case "axiom", "lemma", "axiom!":
			global := word == "axiom!"
			if global {
				word = "axiom"
			}
			i := strings.Index(rest, ":")
			if i < 0 {
				sp.errf("%s: bad %s %q", pkg, word, rest)
				continue
			}
			c := clause(strings.TrimSpace(rest[i+1:]))
			ax := &Axiom{Name: strings.TrimSpace(rest[:i]), Pkg: pkg, Expr: c.Expr, Text: c.Text, Kind: word, Props: curProps, Global: global}
			if word == "axiom" {
				sp.Axioms = append(sp.Axioms, ax)
			} else {
				sp.Lemmas = append(sp.Lemmas, ax)
			}
			cur = nil
		case "global_inv":
			c := clause(rest)
			sp.GlobalInvs = append(sp.GlobalInvs, &GlobalInv{Pkg: pkg, Expr: c.Expr, Text: c.Text})
			cur = nil
		case "frame":
			// frame EC: field object.PanErr.StackTrace, map uint64 object.PanObject, cell int64, elems T
			// frame ECfuncs: object.BuiltInFunc, ...
			i := strings.Index(rest, ":")
			if i < 0 {
				sp.errf("%s: bad frame %q", pkg, rest)
				continue
			}
			items := splitTop(rest[i+1:])
			switch strings.TrimSpace(rest[:i]) {
			case "EC":
				sp.FrameEC = append(sp.FrameEC, items...)
			case "ECfuncs":
				sp.FrameECFuncs = append(sp.FrameECFuncs, items...)
			case "default":
				// frame default: evaluator EC
				for _, it := range items {
					f := strings.Fields(it)
					if len(f) == 2 {
						if sp.DefaultFrame == nil {
							sp.DefaultFrame = map[string]string{}
						}
						sp.DefaultFrame[f[0]] = f[1]
					}
				}
			case "PUREfuncs":
				sp.FramePureFuncs = append(sp.FramePureFuncs, items...)
			default:
				sp.errf("%s: unknown frame %q", pkg, rest[:i])
			}
			cur = nil
		case "traced":
			if sp.Traced == nil {
				sp.Traced = map[string]bool{}
			}
			for _, k := range splitTop(strings.TrimPrefix(rest, ":")) {
				sp.Traced[strings.TrimSpace(k)] = true
			}
			cur = nil
		case "paraminv":
			// paraminv NAME: expr   (assumed of every parameter / captured variable with that name)
			i := strings.Index(rest, ":")
			if i < 0 {
				sp.errf("%s: bad paraminv %q", pkg, rest)
				continue
			}
			c := clause(strings.TrimSpace(rest[i+1:]))
			sp.ParamInvs = append(sp.ParamInvs, &ParamInv{Name: strings.TrimSpace(rest[:i]), Pkg: pkg, Expr: c.Expr, Text: c.Text})
			cur = nil
		case "invariant":
			// invariant object.PanObj: self.Pairs != nil && ...
			i := strings.Index(rest, ":")
			if i < 0 {
				sp.errf("%s: bad invariant %q", pkg, rest)
				continue
			}
			c := clause(strings.TrimSpace(rest[i+1:]))
			tn := strings.TrimSpace(rest[:i])
			assumed := strings.HasPrefix(tn, "assumed ")
			tn = strings.TrimSpace(strings.TrimPrefix(tn, "assumed "))
			sp.TypeInvs = append(sp.TypeInvs, &TypeInv{Type: tn, Pkg: pkg, Expr: c.Expr, Text: c.Text, Assumed: assumed})
			cur = nil
		case "valueresults":
			// valueresults: evaluator, props
			rest = strings.TrimPrefix(rest, ":")
			for _, x := range splitTop(rest) {
				sp.ValueResultPkgs = append(sp.ValueResultPkgs, strings.TrimSpace(x))
			}
			cur = nil
		case "final":
			// final object.PanObj.zero writers: f1, f2 because: text
			why := ""
			if i := strings.Index(rest, " because:"); i >= 0 {
				why = strings.TrimSpace(rest[i+9:])
				rest = rest[:i]
			}
			i := strings.Index(rest, " writers:")
			if i < 0 {
				sp.errf("%s: bad final %q", pkg, rest)
				continue
			}
			fd := FinalDecl{Field: strings.TrimSpace(rest[:i]), Why: why}
			for _, w := range strings.Split(rest[i+9:], ",") {
				fd.Writers = append(fd.Writers, strings.TrimSpace(w))
			}
			sp.Finals = append(sp.Finals, fd)
			cur = nil
		case "guarded_by":
			// guarded_by object.lock: object.symHashTable, object.strTable
			i := strings.Index(rest, ":")
			if i < 0 {
				sp.errf("%s: bad guarded_by %q", pkg, rest)
				continue
			}
			lock := strings.TrimSpace(rest[:i])
			for _, v := range strings.Split(rest[i+1:], ",") {
				sp.GuardedBy[strings.TrimSpace(v)] = lock
			}
			cur = nil
		case "process_state":
			// process_state: object.symHashTable, ...  - package-level variables that may change after package
			// initialisation (state that outlives an evaluation). Any other such variable is reported by the C19 check.
			if sp.ProcessState == nil {
				sp.ProcessState = map[string]bool{}
			}
			for _, v := range strings.Split(strings.TrimPrefix(rest, ":"), ",") {
				if v = strings.TrimSpace(v); v != "" {
					sp.ProcessState[v] = true
				}
			}
			cur = nil
		case "shared_errors":
			// shared_errors: object.BuiltInNotImplemented  - the package-level *PanErr variables (process-wide error
			// objects). Any other package-level variable of that type is reported by the C19 check.
			if sp.SharedErrs == nil {
				sp.SharedErrs = map[string]bool{}
			}
			for _, v := range strings.Split(strings.TrimPrefix(rest, ":"), ",") {
				if v = strings.TrimSpace(v); v != "" {
					sp.SharedErrs[v] = true
				}
			}
			cur = nil
		default:
			sp.errf("%s: unknown clause %q", pkg, t)
		}
	}
}

// "evaluator.arrIndex(index, arr) res" ; `props.IntProps["//"](env, kwargs, args) res`
func parseFuncHeader(s, pkg string) *Contract {
	// find the '(' that starts the parameter list: the last '(' such that the remainder has matching ')'
	// Keys may contain "(*T)" so search from the right for ") " or ")" end.
	close := strings.LastIndex(s, ")")
	if close < 0 {
		return &Contract{Key: strings.TrimSpace(s), Pkg: pkg}
	}
	// find matching open
	depth := 0
	open := -1
	for i := close; i >= 0; i-- {
		if s[i] == ')' {
			depth++
		}
		if s[i] == '(' {
			depth--
			if depth == 0 {
				open = i
				break
			}
		}
	}
	if open <= 0 {
		return nil
	}
	key := strings.TrimSpace(s[:open])
	// a header like pkg.(*T).M with no param list: then key ends with "." which is wrong -> treat as no params
	if strings.HasSuffix(key, ".") || key == "" {
		return &Contract{Key: strings.TrimSpace(s), Pkg: pkg}
	}
	c := &Contract{Key: key, Pkg: pkg}
	ps := strings.TrimSpace(s[open+1 : close])
	if ps != "" {
		for _, p := range strings.Split(ps, ",") {
			c.ParamNames = append(c.ParamNames, strings.TrimSpace(p))
		}
	}
	rs := strings.TrimSpace(s[close+1:])
	rs = strings.Trim(rs, "()")
	if rs != "" {
		for _, r := range strings.Split(rs, ",") {
			c.ResNames = append(c.ResNames, strings.TrimSpace(r))
		}
	}
	return c
}

func parseSpecFun(s, pkg string) *SpecFun {
	open := strings.Index(s, "(")
	if open < 0 {
		return nil
	}
	depth := 0
	close := -1
	for i := open; i < len(s); i++ {
		if s[i] == '(' {
			depth++
		}
		if s[i] == ')' {
			depth--
			if depth == 0 {
				close = i
				break
			}
		}
	}
	if close < 0 {
		return nil
	}
	sf := &SpecFun{Name: strings.TrimSpace(s[:open]), Pkg: pkg}
	ps := strings.TrimSpace(s[open+1 : close])
	if ps != "" {
		for _, p := range strings.Split(ps, ",") {
			f := strings.Fields(strings.TrimSpace(p))
			if len(f) != 2 {
				return nil
			}
			sf.Params = append(sf.Params, SVar{f[0], f[1]})
		}
	}
	rest := strings.TrimSpace(s[close+1:])
	if i := strings.Index(rest, "="); i >= 0 && !strings.HasPrefix(rest[i:], "==") {
		sf.Result = strings.TrimSpace(rest[:i])
		sf.BodyTxt = strings.TrimSpace(rest[i+1:])
	} else {
		sf.Result = rest
	}
	if sf.Result == "" {
		sf.Result = "bool"
	}
	return sf
}

// splitTop splits on commas that are not inside parentheses/brackets.
func splitTop(s string) []string {
	var out []string
	depth, start := 0, 0
	for i, r := range s {
		switch r {
		case '(', '[':
			depth++
		case ')', ']':
			depth--
		case ',':
			if depth == 0 {
				out = append(out, strings.TrimSpace(s[start:i]))
				start = i + 1
			}
		}
	}
	if t := strings.TrimSpace(s[start:]); t != "" {
		out = append(out, t)
	}
	return out
}

var traceVocab = map[string]bool{"ncalls": true, "called": true, "arg1": true, "arg2": true, "arg3": true, "arg4": true, "arg5": true, "arg6": true,
	"result": true, "result2": true, "resultb": true, "resultok": true, "nvarargs": true, "sliceArg": true, "sliceArg2": true, "sliceRes": true, "visited": true, "callee": true}

// mentionsTrace: the expression speaks about the ghost call log of the activation it belongs to. Such a
// clause is an obligation of that function only; it must never be assumed at a call site (the caller has
// its own log).
func mentionsTrace(e SExpr, sp *Specs) bool {
	switch x := e.(type) {
	case *SIdent:
		return traceVocab[x.Name]
	case *SSel:
		return mentionsTrace(x.X, sp)
	case *SIndex:
		return mentionsTrace(x.X, sp) || mentionsTrace(x.I, sp)
	case *SCall:
		if id, ok := x.Fun.(*SIdent); ok {
			if traceVocab[id.Name] {
				return true
			}
			if sf := sp.SpecFuns[id.Name]; sf != nil && sf.Macro && sf.Body != nil && mentionsTrace(sf.Body, sp) {
				return true
			}
		}
		for _, a := range x.Args {
			if mentionsTrace(a, sp) {
				return true
			}
		}
		return mentionsTrace(x.Fun, sp)
	case *SUn:
		return mentionsTrace(x.X, sp)
	case *SBin:
		return mentionsTrace(x.X, sp) || mentionsTrace(x.Y, sp)
	case *SCond:
		return mentionsTrace(x.C, sp) || mentionsTrace(x.A, sp) || mentionsTrace(x.B, sp)
	case *SQuant:
		return mentionsTrace(x.Body, sp)
	case *SDeref:
		return mentionsTrace(x.X, sp)
	case *SOld:
		return mentionsTrace(x.X, sp)
	}
	return false
}
