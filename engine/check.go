package main

import (
	"encoding/json"
	"flag"
	"fmt"
	"go/types"
	"golang.org/x/tools/go/ssa"
	"os"
	"path/filepath"
	"regexp"
	"sort"
	"strconv"
	"strings"
	"time"
)

// PropCfg: how one property is decided.
type PropCfg struct {
	ID       string
	Families []string // obligation families generated for the functions under contract
	// Sweep: additional functions (by key prefix) verified without contract for the given families
	SweepPrefixes   []string
	SweepFamilies   []string
	SweepExclude    []string
	SweepGuarded    bool   // also verify (family LOCK) every function that touches a guarded_by global
	SweepSharedErrs bool   // enumerate package-level *PanErr variables: each must be declared (shared_errors)
	Replay          string // decoder name
	Composition     string // the unchecked step from per-function contracts to the property
}

var propCfgs = map[string]*PropCfg{}

func registerProp(p *PropCfg) { propCfgs[p.ID] = p }

type KnownFinding struct {
	Property   string `json:"property"`
	Obligation string `json:"obligation"` // function key + "#" + kind prefix, e.g. props.IntProps["//"]#POST.ensures2
	Input      string `json:"input"`
	What       string `json:"what"`
	Status     string `json:"status"` // open | fixed:<commit>
}

type KnownFindings struct {
	Findings []KnownFinding `json:"findings"`
	Fixed    []string       `json:"fixed"`
}

func loadKnownFindings(path string) *KnownFindings {
	kf := &KnownFindings{}
	b, err := os.ReadFile(path)
	if err != nil {
		return kf
	}
	if err := json.Unmarshal(b, kf); err != nil {
		fmt.Fprintln(os.Stderr, "known_findings.json:", err)
	}
	return kf
}

var ordinalRe = regexp.MustCompile(`(\.ret\d+)?@\d+$`)

// stableName strips the return-point and ordinal suffixes: findings are keyed by function and clause.
func stableName(n string) string { return ordinalRe.ReplaceAllString(n, "") }

// Baseline: per property, the functions whose obligations (of that property's families) all discharged on
// the unchanged tree. Committed; rewritten only by --write-baseline.
type Baseline struct {
	ByProperty map[string]map[string]bool `json:"by_property"`
	Functions  map[string]bool            `json:"-"` // view for the property being checked
}

func loadBaseline(path, id string) *Baseline {
	b := &Baseline{ByProperty: map[string]map[string]bool{}}
	data, err := os.ReadFile(path)
	if err == nil {
		json.Unmarshal(data, b)
	}
	if b.ByProperty == nil {
		b.ByProperty = map[string]map[string]bool{}
	}
	if b.ByProperty[id] == nil {
		b.ByProperty[id] = map[string]bool{}
	}
	b.Functions = b.ByProperty[id]
	return b
}

type oblReport struct {
	Name    string            `json:"obligation"`
	Family  string            `json:"family"`
	Status  string            `json:"status"`
	Solver  string            `json:"backend"`
	Seconds float64           `json:"solver_s"`
	Pos     string            `json:"pos,omitempty"`
	Detail  string            `json:"detail,omitempty"`
	Model   map[string]string `json:"model,omitempty"`
	Confirm string            `json:"confirmed_by,omitempty"`
	Tried   string            `json:"tried,omitempty"`
}

func verifRoot() string {
	if v := os.Getenv("VERIF_ROOT"); v != "" {
		return v
	}
	return "/verif"
}

func cmdCheck(args []string) int {
	fs := flag.NewFlagSet("check", flag.ExitOnError)
	repo := fs.String("repo", "/repo", "repository")
	tier := fs.String("tier", "", "quick|thorough")
	baselineMode := fs.Bool("write-baseline", false, "record the functions whose obligations all discharged")
	// flags may follow the property id
	var flagArgs, posArgs []string
	for i := 0; i < len(args); i++ {
		a := args[i]
		if strings.HasPrefix(a, "-") {
			flagArgs = append(flagArgs, a)
			if !strings.Contains(a, "=") && (strings.TrimLeft(a, "-") == "tier" || strings.TrimLeft(a, "-") == "repo") && i+1 < len(args) {
				i++
				flagArgs = append(flagArgs, args[i])
			}
		} else {
			posArgs = append(posArgs, a)
		}
	}
	fs.Parse(append(flagArgs, posArgs...))
	if fs.NArg() < 1 {
		fmt.Fprintln(os.Stderr, "usage: gocv check <property> [--tier quick|thorough]")
		return 2
	}
	id := fs.Arg(0)
	if *tier == "" {
		*tier = os.Getenv("VERIF_TIER")
	}
	if *tier == "" {
		*tier = "quick"
	}
	seed, _ := strconv.Atoi(os.Getenv("VERIF_SEED"))
	cfg := propCfgs[id]
	if cfg == nil {
		fmt.Fprintf(os.Stderr, "property %s has no check (see MANIFEST.json not_applicable)\n", id)
		return 3
	}
	t0 := time.Now()
	root := verifRoot()
	work := filepath.Join(root, "work", id)
	os.RemoveAll(work)
	os.MkdirAll(work, 0o755)
	replayDir := filepath.Join(root, "replay", id)
	os.RemoveAll(replayDir)
	os.MkdirAll(replayDir, 0o755)

	w, err := LoadWorld(*repo)
	if err != nil {
		fmt.Fprintln(os.Stderr, "ERROR load:", err)
		return 3
	}
	sp := ParseSpecs(w)
	mods := NewModAnalysis(w, sp)
	if len(sp.Errors) > 0 {
		for _, e := range sp.Errors {
			fmt.Println("ERROR spec:", e)
		}
		return 3
	}
	timeout := 8
	confirm := false
	if *tier == "thorough" {
		timeout = 60
		confirm = true
	}
	currentProp = id
	// functions under contract for this property
	var targets []string
	for _, k := range sp.Order {
		c := sp.Contracts[k]
		if c.Trusted {
			continue
		}
		for _, p := range c.Props {
			if p == id {
				targets = append(targets, k)
			}
		}
	}
	exit := 0
	base := loadBaseline(filepath.Join(root, "baseline_obligations.json"), id)
	oldBase := map[string]bool{}
	for k, v := range base.Functions {
		oldBase[k] = v
	}
	retryFilter = func(k string) bool { return oldBase[k] }
	var unguarded []string
	// unbound contracts
	for _, k := range targets {
		if w.Funcs[k] == nil && !sp.Contracts[k].Trusted {
			fmt.Printf("ERROR unbound-contract %s\n", k)
			exit = 3
		}
	}
	if exit != 0 {
		return exit
	}
	results := verifyAll(w, sp, mods, targets, familySet(cfg.Families), work, timeout, confirm)
	if len(cfg.SweepPrefixes) > 0 {
		var sweep []string
		under := map[string]bool{}
		for _, k := range targets {
			under[w.FuncKey[w.Funcs[k]]] = true
		}
		for _, fn := range w.AllFuncs {
			k := w.FuncKey[fn]
			if under[k] || isInitFunc(fn) {
				continue
			}
			if con := sp.Contracts[k]; con != nil && con.Trusted {
				continue
			}
			skip := false
			for _, ex := range cfg.SweepExclude {
				if strings.HasPrefix(k, ex) {
					skip = true
				}
			}
			if skip {
				continue
			}
			// quick tier: only functions whose obligations all discharged on the unchanged tree (the baseline);
			// the thorough tier and --write-baseline sweep everything
			if *tier == "quick" && !*baselineMode && !base.Functions[k] {
				continue
			}
			for _, pre := range cfg.SweepPrefixes {
				if strings.HasPrefix(k, pre) {
					sweep = append(sweep, k)
					break
				}
			}
		}
		sres := verifyAll(w, sp, mods, sweep, familySet(cfg.SweepFamilies), work, timeout, confirm)
		// frame refinement: functions whose FRAME obligations all discharged have a proved frame; callers that
		// failed only because of the (coarser) inferred frame of such a callee are verified again
		if familySet(cfg.SweepFamilies)["FRAME"] {
			all := append(append([]*FuncResult{}, results...), sres...)
			for round := 0; round < 5; round++ {
				var newly []*ssa.Function
				var failing []string
				for _, r := range all {
					fn := w.Funcs[r.Key]
					if fn == nil || r.GenErr != "" || len(r.Unsupported) > 0 {
						continue
					}
					bad := false
					for _, o := range r.Obligations {
						if o.Family == "FRAME" && o.Result != nil && o.Result.Status != "unsat" {
							bad = true
						}
					}
					if bad {
						failing = append(failing, r.Key)
					} else if !mods.Verified[fn] {
						newly = append(newly, fn)
					}
				}
				if len(newly) == 0 || len(failing) == 0 {
					break
				}
				mods.MarkVerified(newly)
				fmt.Printf("frame refinement round %d: %d functions with a proved frame, re-verifying %d\n", round+1, len(mods.Verified), len(failing))
				isTarget := map[string]bool{}
				for _, k := range targets {
					isTarget[w.FuncKey[w.Funcs[k]]] = true
				}
				var reT, reS []string
				for _, k := range failing {
					if isTarget[k] {
						reT = append(reT, k)
					} else {
						reS = append(reS, k)
					}
				}
				redo := append(verifyAll(w, sp, mods, reT, familySet(cfg.Families), work, timeout, confirm),
					verifyAll(w, sp, mods, reS, familySet(cfg.SweepFamilies), work, timeout, confirm)...)
				byKey := map[string]*FuncResult{}
				for _, r := range redo {
					byKey[r.Key] = r
				}
				for i, r := range all {
					if nr, ok := byKey[r.Key]; ok {
						all[i] = nr
					}
				}
			}
			results = all
		} else {
			results = append(results, sres...)
		}
	}
	if cfg.SweepGuarded {
		under := map[string]bool{}
		for _, r := range results {
			under[r.Key] = true
		}
		var sweep []string
		for _, fn := range w.AllFuncs {
			k := w.FuncKey[fn]
			if under[k] || !touchesGuarded(w, sp, fn) {
				continue
			}
			sweep = append(sweep, k)
		}
		results = append(results, verifyAll(w, sp, mods, sweep, familySet([]string{"LOCK"}), work, timeout, confirm)...)
		// enumeration: every package-level container mutated after initialisation must be guarded
		for g, fns := range mods.MutatedGlobals {
			gname := shortPkg(g.Pkg.Pkg.Path()) + "." + g.Name()
			if _, ok := sp.GuardedBy[gname]; !ok {
				fmt.Printf("  failed obligation LOCK.unguarded-global %s (written after initialisation by %s, no guarded_by declaration)\n", gname, strings.Join(sortedKeys(fns), ", "))
				unguarded = append(unguarded, gname)
			}
		}
	}
	// lemmas
	lemmaObls := verifyLemmas(w, sp, mods, id, work, timeout, confirm)

	kf := loadKnownFindings(filepath.Join(root, "known_findings.json"))

	var reports []oblReport
	nObl, nDis, nKnown, nViol, nUndecided := 0, 0, 0, 0, 0
	solverTime := 0.0
	var funcs []string
	trusted := map[string]bool{}
	var outOfReach []string
	backends := map[string]int{}
	passedFns := map[string]bool{}
	knownPrinted := map[string]bool{}
	var violLines []string
	// contradictory assumptions: an error of the machinery - unless the same function has a failed obligation,
	// in which case the contradiction is the expected consequence of assuming a loop invariant / callee
	// precondition that was just shown not to hold (the failed obligation is the report)
	vacuousFns := map[string][]string{}
	handle := func(fnKey string, inBaseline bool, o *Obligation) {
		r := o.Result
		rep := oblReport{Name: o.Name, Family: o.Family, Status: r.Status, Solver: r.Solver, Seconds: r.Seconds, Pos: o.Pos, Detail: o.Detail, Confirm: r.Confirm, Tried: strings.Join(r.Tried, " ")}
		solverTime += r.Seconds
		if o.Family == "VACUITY" {
			// passes unless the background+requires is refuted
			if r.Status == "unsat" {
				rep.Status = "VACUOUS"
				vacuousFns[fnKey] = append(vacuousFns[fnKey], o.Name)
			} else {
				rep.Status = "nonvacuous(" + r.Status + ")"
			}
			reports = append(reports, rep)
			return
		}
		nObl++
		if strings.HasPrefix(r.Confirm, "DISAGREE") {
			fmt.Printf("ERROR solver-disagreement %s %s\n", o.Name, r.Confirm)
			exit = 3
		}
		if r.Status == "unsat" {
			nDis++
			backends[r.Solver]++
			reports = append(reports, rep)
			return
		}
		passedFns[fnKey] = false
		rep.Model = r.Model
		if r.Status == "error" {
			fmt.Printf("ERROR solver-error %s: %s\n", o.Name, truncate(r.Raw, 300))
			exit = 3
			reports = append(reports, rep)
			return
		}
		// known finding?
		sn := stableName(o.Name)
		for _, f := range kf.Findings {
			if f.Property == id && f.Status == "open" && f.Obligation == sn {
				nKnown++
				rep.Status = "known-finding(" + r.Status + ")"
				reports = append(reports, rep)
				if !knownPrinted[sn] {
					knownPrinted[sn] = true
					fmt.Printf("KNOWN-FINDING: property=%s %s: %s (input: %s)\n", id, sn, f.What, f.Input)
				}
				return
			}
		}
		// replay
		replayPath := filepath.Join(replayDir, sanitizeFile(o.Name)+".json")
		verdict, decoded := "no-decoder", map[string]string{}
		if r.Status == "sat" && cfg.Replay != "" {
			verdict, decoded = runReplay(w, cfg.Replay, o, replayDir)
		}
		writeReplayFile(replayPath, id, o, verdict, decoded)
		isViolation := inBaseline || verdict == "reproduced"
		if !isViolation {
			nUndecided++
			rep.Status = "undecided(" + r.Status + ")"
			reports = append(reports, rep)
			fmt.Printf("UNDECIDED %s (%s; function not in baseline; %s)\n", o.Name, r.Status, o.Detail)
			return
		}
		nViol++
		rep.Status = "VIOLATION(" + r.Status + "," + verdict + ")"
		reports = append(reports, rep)
		suffix := ""
		if verdict != "reproduced" {
			suffix = " no-failing-input-found"
		}
		violLines = append(violLines, fmt.Sprintf("VIOLATION property=%s replay=%s%s", id, replayPath, suffix))
		fmt.Printf("  failed obligation %s [%s] %s :: %s\n", o.Name, r.Status, o.Pos, o.Detail)
	}
	for _, r := range results {
		if r.GenErr != "" {
			fmt.Printf("ERROR engine %s: %s\n", r.Key, r.GenErr)
			exit = 3
			continue
		}
		if len(r.Unsupported) > 0 {
			outOfReach = append(outOfReach, r.Key+": "+strings.Join(uniq(r.Unsupported), "; "))
			if base.Functions[r.Key] && !*baselineMode {
				// every obligation of this function was discharged on the unchanged tree; now the function cannot
				// even be brought under its contract (a clause no longer binds, or the body left the supported subset)
				nObl++
				nViol++
				rp := filepath.Join(replayDir, "UNVERIFIABLE."+sanitizeFile(r.Key)+".json")
				b, _ := json.MarshalIndent(map[string]interface{}{"property": id, "obligation": r.Key + "#UNVERIFIABLE",
					"detail": "the function's obligations were discharged on the unchanged tree; on this tree they cannot be generated", "reasons": uniq(r.Unsupported)}, "", " ")
				os.WriteFile(rp, b, 0o644)
				fmt.Printf("  failed obligation %s#UNVERIFIABLE :: %s\n", r.Key, strings.Join(uniq(r.Unsupported), "; "))
				violLines = append(violLines, fmt.Sprintf("VIOLATION property=%s replay=%s no-failing-input-found", id, rp))
			} else if r.HasContract {
				fmt.Printf("ERROR out-of-reach %s: %s\n", r.Key, strings.Join(uniq(r.Unsupported), "; "))
				exit = 3
			}
			continue
		}
		funcs = append(funcs, r.Key)
		for _, a := range r.Assumptions {
			trusted[a] = true
		}
		if _, seen := passedFns[r.Key]; !seen {
			passedFns[r.Key] = true
		}
		inBase := base.Functions[r.Key] || *baselineMode
		for _, o := range r.Obligations {
			handle(r.Key, inBase, o)
		}
	}
	for _, o := range lemmaObls {
		handle(o.Fn, true, o)
	}
	for _, gname := range unguarded {
		nObl++
		nViol++
		rp := filepath.Join(replayDir, "LOCK.unguarded-global."+sanitizeFile(gname)+".json")
		b, _ := json.MarshalIndent(map[string]string{"property": id, "obligation": "LOCK.unguarded-global " + gname,
			"detail": "package-level container written after initialisation without a guarded_by declaration"}, "", " ")
		os.WriteFile(rp, b, 0o644)
		violLines = append(violLines, fmt.Sprintf("VIOLATION property=%s replay=%s no-failing-input-found", id, rp))
	}
	if cfg.SweepGuarded {
		nObl++ // the enumeration obligation itself
		if len(unguarded) == 0 {
			nDis++
		}
	}
	if cfg.SweepSharedErrs {
		// a package-level error object outlives an evaluation and appendStackTrace writes the error it is given:
		// every such object must be declared (and then has its own obligation that its trace is left alone)
		nObl++
		var undeclared []string
		for _, pk := range sortedKeys(w.SSAPkgs) {
			sp2 := w.SSAPkgs[pk]
			if !w.isRepoPkg(sp2.Pkg.Path()) {
				continue
			}
			for _, mn := range sortedKeys(sp2.Members) {
				g, ok := sp2.Members[mn].(*ssa.Global)
				if !ok {
					continue
				}
				if types.TypeString(g.Type(), nil) != "**"+repoMod+"/object.PanErr" {
					continue
				}
				if !sp.SharedErrs[pk+"."+g.Name()] {
					undeclared = append(undeclared, pk+"."+g.Name())
				}
			}
		}
		// state that outlives an evaluation: package-level variables that are assigned after initialisation, hold a
		// container that is written after initialisation, or are concurrent containers of package sync. Each must be
		// declared (process_state); a new cache or memo table at package level is reported here.
		nObl++
		var undeclaredState []string
		for _, pk := range []string{"evaluator", "object", "props", "runscript"} {
			sp2 := w.SSAPkgs[pk]
			if sp2 == nil {
				continue
			}
			for _, mn := range sortedKeys(sp2.Members) {
				g, ok := sp2.Members[mn].(*ssa.Global)
				if !ok || strings.HasPrefix(mn, "init$") || mn == "_" {
					continue
				}
				why := ""
				elem := g.Type().(*types.Pointer).Elem()
				if !mods.IsFinal(g) {
					why = "assigned after package initialisation"
				} else if mods.globalContentWritten(g) {
					why = "its container is written after package initialisation"
				} else if n, ok := elem.(*types.Named); ok && n.Obj().Pkg() != nil && (n.Obj().Pkg().Path() == "sync" || n.Obj().Pkg().Path() == "sync/atomic") && n.Obj().Name() != "Mutex" && n.Obj().Name() != "RWMutex" && n.Obj().Name() != "Once" {
					why = "concurrent container " + n.Obj().Pkg().Path() + "." + n.Obj().Name()
				}
				if why != "" && !sp.ProcessState[pk+"."+g.Name()] {
					undeclaredState = append(undeclaredState, pk+"."+g.Name()+" ("+why+")")
				}
			}
		}
		if len(undeclaredState) == 0 {
			nDis++
		}
		for _, gname := range undeclaredState {
			nViol++
			rp := filepath.Join(replayDir, "STATE.undeclared-process-state."+sanitizeFile(gname)+".json")
			b, _ := json.MarshalIndent(map[string]string{"property": id, "obligation": "STATE.undeclared-process-state " + gname,
				"detail": "package-level variable that can change after initialisation: state that an earlier evaluation can leave behind for a later one; not declared under process_state"}, "", " ")
			os.WriteFile(rp, b, 0o644)
			fmt.Printf("  failed obligation STATE.undeclared-process-state %s :: package-level state that outlives an evaluation\n", gname)
			violLines = append(violLines, fmt.Sprintf("VIOLATION property=%s replay=%s no-failing-input-found", id, rp))
		}
		if len(undeclared) == 0 {
			nDis++
		}
		for _, gname := range undeclared {
			nViol++
			rp := filepath.Join(replayDir, "SHARED.undeclared-error-object."+sanitizeFile(gname)+".json")
			b, _ := json.MarshalIndent(map[string]string{"property": id, "obligation": "SHARED.undeclared-error-object " + gname,
				"detail": "package-level *object.PanErr variable: one error object shared by every evaluation of the process; appendStackTrace appends to the error it is given, so its stack trace would carry the source lines of earlier programs. Not declared under shared_errors (where it would get its own leave-alone obligation)"}, "", " ")
			os.WriteFile(rp, b, 0o644)
			fmt.Printf("  failed obligation SHARED.undeclared-error-object %s :: package-level error object shared by all evaluations\n", gname)
			violLines = append(violLines, fmt.Sprintf("VIOLATION property=%s replay=%s no-failing-input-found", id, rp))
		}
	}
	// global invariants: decided by executing package initialisation
	ginv := checkGlobalInvs(w, sp, mods)
	nGinv, nGinvOK := 0, 0
	for _, g := range ginv {
		nGinv++
		nObl++
		if g.OK {
			nGinvOK++
			nDis++
			backends["go test (execution of package initialisation)"]++
			continue
		}
		nViol++
		rp := filepath.Join(replayDir, "GLOBALINV."+sanitizeFile(g.Name)+".json")
		b, _ := json.MarshalIndent(map[string]string{"property": id, "obligation": "GLOBALINV " + g.Name, "detail": g.Detail}, "", " ")
		os.WriteFile(rp, b, 0o644)
		fmt.Printf("  failed obligation GLOBALINV %s :: %s\n", g.Name, g.Detail)
		violLines = append(violLines, fmt.Sprintf("VIOLATION property=%s replay=%s", id, rp))
	}
	for _, fk := range sortedKeys(vacuousFns) {
		if ok, seen := passedFns[fk]; seen && !ok {
			fmt.Printf("NOTE assumptions of %s are contradictory after its failed obligation(s): %s\n", fk, strings.Join(vacuousFns[fk], ", "))
			continue
		}
		for _, n := range vacuousFns[fk] {
			fmt.Printf("ERROR vacuous-precondition %s\n", n)
		}
		exit = 3
	}
	for _, l := range violLines {
		fmt.Println(l)
	}
	if nViol > 0 && exit == 0 {
		exit = 1
	}
	if nObl == 0 {
		fmt.Println("ERROR no obligations generated (vacuous run)")
		exit = 3
	}
	// contracts assumed but not verified here
	var assumedContracts []string
	for _, k := range sp.Order {
		c := sp.Contracts[k]
		if c.Trusted {
			assumedContracts = append(assumedContracts, "trusted contract (body not verified): "+k)
		}
	}
	for _, ax := range sp.Axioms {
		assumedContracts = append(assumedContracts, "axiom "+ax.Name+": "+ax.Text)
	}
	for _, ti := range sp.TypeInvs {
		if ti.Assumed {
			assumedContracts = append(assumedContracts, "data-structure invariant assumed, not checked at allocation: "+ti.Type+": "+ti.Text)
		}
	}
	for _, a := range mods.FinalAssumptions {
		assumedContracts = append(assumedContracts, a)
	}
	sort.Strings(funcs)
	tb := sortedKeys(trusted)
	tb = append(tb, "go/packages+go/types+go/ssa (x/tools v0.29.0) front end; gocv SSA->SMT translation", "SMT solvers: z3 4.8.12, z3-new 5.1.0, cvc5 1.0.3")
	samples := []oblReport{}
	for i, r := range reports {
		if i < 8 || strings.HasPrefix(r.Status, "VIOLATION") || strings.HasPrefix(r.Status, "known") {
			samples = append(samples, r)
		}
		if len(samples) > 40 {
			break
		}
	}
	ev := map[string]interface{}{
		"property_id": id, "tier": *tier, "seed": seed, "level": "proof",
		"coverage": map[string]interface{}{
			"obligations": nObl - nKnown - nUndecided, "discharged": nDis,
			"query_digest":              fmt.Sprintf("%016x", queryDigest),
			"known_finding_obligations": nKnown, "violating_obligations": nViol, "undecided_obligations": nUndecided,
			"checker_cmd":              fmt.Sprintf("/verif/bin/gocv check %s --tier %s (weakest-precondition VCs over go/ssa of /repo, discharged by z3/z3-new/cvc5)", id, *tier),
			"trusted_base":             tb,
			"functions_under_contract": funcs,
			"backends":                 backends,
			"solver_time_s":            round2(solverTime),
			"out_of_reach":             outOfReach,
			"samples":                  samples,
			"integers":                 "mathematical Int with explicit wrap64/wrapN at every fixed-width arithmetic result; truncated division axiomatised per the Go spec",
			"composition_unchecked":    cfg.Composition,
			"bounded_stand_ins":        []string{},
		},
		"assumptions": append(assumedContracts, standingAssumptions...),
		"wall_s":      round2(time.Since(t0).Seconds()),
		"violations":  nViol,
	}
	os.MkdirAll(filepath.Join(root, "evidence"), 0o755)
	data, _ := json.MarshalIndent(ev, "", " ")
	os.WriteFile(filepath.Join(root, "evidence", id+".json"), data, 0o644)
	// full per-obligation report for inspection
	full, _ := json.MarshalIndent(reports, "", " ")
	os.WriteFile(filepath.Join(work, "obligations.json"), full, 0o644)
	if *baselineMode {
		for k := range base.Functions {
			delete(base.Functions, k)
		}
		for k, ok := range passedFns {
			if ok {
				base.Functions[k] = true
			}
		}
		bd, _ := json.MarshalIndent(base, "", " ")
		os.WriteFile(filepath.Join(root, "baseline_obligations.json"), bd, 0o644)
	}
	if f := os.Getenv("GOCV_DUMP_DIGESTS"); f != "" {
		var sb strings.Builder
		for _, k := range sortedKeys(queryNames) {
			fmt.Fprintf(&sb, "%016x %s\n", queryNames[k], k)
		}
		os.WriteFile(f, []byte(sb.String()), 0o644)
	}
	fmt.Printf("property=%s tier=%s functions=%d obligations=%d discharged=%d known=%d violations=%d undecided=%d queries=%016x wall=%.1fs\n",
		id, *tier, len(funcs), nObl, nDis, nKnown, nViol, nUndecided, queryDigest, time.Since(t0).Seconds())
	return exit
}

// currentProp: the property whose check is running ("" in dev commands: every clause is generated)
var currentProp string

var standingAssumptions = []string{
	"amd64: int is 64 bit; len/cap of any slice, string or map <= 2^48",
	"symhash (FNV-1a, object.GetSymHash) is injective on the strings a run uses",
	"closed world: the implementers of repository interfaces are the types in the loaded program",
	"partial correctness: termination, stack depth and memory exhaustion are not verified",
	"floats, string contents, shifts and bit operations are uninterpreted",
	"package-level variables assigned only during package initialisation are constants; pointer-typed ones are non-nil and pairwise distinct per type (checked by executing initialisation: GLOBALINV)",
	"fields never stored to outside the initialisation of a fresh allocation (inferred over the whole repository on every run) are modelled as immutable functions of the reference",
}

func round2(f float64) float64 { return float64(int(f*100+0.5)) / 100 }

func uniq(xs []string) []string {
	m := map[string]bool{}
	var out []string
	for _, x := range xs {
		if !m[x] {
			m[x] = true
			out = append(out, x)
		}
	}
	return out
}

func familySet(fs []string) map[string]bool {
	if len(fs) == 0 {
		return nil
	}
	m := map[string]bool{}
	for _, f := range fs {
		m[f] = true
	}
	return m
}

func writeReplayFile(path, id string, o *Obligation, verdict string, decoded map[string]string) {
	r := o.Result
	data := map[string]interface{}{
		"property": id, "obligation": o.Name, "family": o.Family, "position": o.Pos, "detail": o.Detail,
		"solver_status": r.Status, "solver": r.Solver, "tried": r.Tried, "model": r.Model, "model_from_reduced_query": r.Reduced,
		"decoded_input": decoded, "replay_verdict": verdict, "solver_output": truncate(r.Raw, 4000),
	}
	b, _ := json.MarshalIndent(data, "", " ")
	os.WriteFile(path, b, 0o644)
}

// verifyLemmas discharges the `lemma` clauses tagged with the property.
func verifyLemmas(w *World, sp *Specs, mods *ModAnalysis, id, work string, timeoutS int, confirm bool) []*Obligation {
	var out []*Obligation
	for _, lm := range sp.Lemmas {
		tagged := false
		for _, p := range lm.Props {
			if p == id {
				tagged = true
			}
		}
		if !tagged {
			continue
		}
		// a lemma is verified in the context of an arbitrary function: use a tiny ctx on the first repo function
		c := NewCtx(w, sp, mods, w.AllFuncs[0], nil)
		c.key = "lemma." + lm.Name
		for _, ax := range sp.Axioms {
			c.extraUses = append(c.extraUses, ax.Name)
		}
		st := &State{heap: map[string]string{}, locals: nil, alloc: "alloc_entry", held: "0"}
		c.declare("alloc_entry", "Int")
		c.assume("true", "(> alloc_entry nglobals)")
		c.entry = st
		c.emitAxioms(st)
		ev := c.newSpecEval(nil, st, st)
		ev.pkg = lm.Pkg
		tv, err := ev.eval(lm.Expr)
		if err != nil {
			fmt.Printf("ERROR lemma %s: %v\n", lm.Name, err)
			continue
		}
		o := &Obligation{Name: "lemma." + lm.Name + "#LEMMA", Family: "LEMMA", Fn: "lemma." + lm.Name, Upto: len(c.lines), Reach: "true", Goal: tv.T,
			Detail: lm.Text, ctx: c, Track: map[string]string{}}
		o.Result = Solve(o, work, timeoutS, confirm)
		out = append(out, o)
	}
	return out
}

func cmdReplay(args []string) int {
	if len(args) < 1 {
		fmt.Fprintln(os.Stderr, "usage: gocv replay <file.json>")
		return 2
	}
	b, err := os.ReadFile(args[0])
	if err != nil {
		fmt.Fprintln(os.Stderr, err)
		return 2
	}
	fmt.Println(string(b))
	return 0
}

func touchesGuarded(w *World, sp *Specs, fn *ssa.Function) bool {
	for _, b := range fn.Blocks {
		for _, ins := range b.Instrs {
			for _, op := range ins.Operands(nil) {
				if g, ok := (*op).(*ssa.Global); ok {
					if _, guarded := sp.GuardedBy[shortPkg(g.Pkg.Pkg.Path())+"."+g.Name()]; guarded {
						return true
					}
				}
			}
		}
	}
	return false
}
