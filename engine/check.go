package main

func cmdCheck(args []string) int  { return 0 }
func cmdReplay(args []string) int { return 0 }
