package main

import (
	"fmt"
	"go/token"
	"go/types"
	"strings"

	"golang.org/x/tools/go/ssa"
)

const maxInlineDepth = 5

func (c *Ctx) execRange(fr *Frame, x *ssa.Range, st *State, reach string) {
	v := c.operand(fr, x.X, st)
	fr.vals[x] = Val{T: c.term(v), Typ: x.X.Type()} // iterator remembers the collection
	if mt, ok := x.X.Type().Underlying().(*types.Map); ok && c.specDepth == 0 {
		// ghost: the set of keys this range has produced so far, and which keys were present at its start
		hn, hs, _, _, ks, _ := c.mapArrays(mt, st)
		srt := fmt.Sprintf("(Array %s Bool)", ks)
		set := c.defineAlways("vis", srt, fmt.Sprintf("((as const %s) false)", srt))
		has0 := c.defineAlways("vis_has0", srt, fmt.Sprintf("(select %s %s)", c.arr(st, hn, hs), c.term(v)))
		if st.vis == nil {
			st.vis = map[*ssa.Range]visInfo{}
		}
		st.vis[x] = visInfo{set: set, has0: has0, sort: srt}
	}
}

func (c *Ctx) execNext(fr *Frame, x *ssa.Next, st *State, reach string) {
	it := c.operand(fr, x.Iter, st)
	ok := c.havoc(x.Name()+"_ok", "Bool")
	if x.IsString {
		i := c.havoc(x.Name()+"_i", "Int")
		r := c.havoc(x.Name()+"_r", "Int")
		c.assume(reach, fmt.Sprintf("(=> %s (and (<= 0 %s) (< %s (strlen %s)) (<= 0 %s) (<= %s 1114111)))", ok, i, i, it.T, r, r))
		fr.vals[x] = Val{Tup: []Val{{T: ok}, {T: i}, {T: r}}, Typ: x.Type()}
		return
	}
	rng := x.Iter.(*ssa.Range)
	mt := rng.X.Type().Underlying().(*types.Map)
	hn, hs, vn, vs, ks, es := c.mapArrays(mt, st)
	k := c.havoc(x.Name()+"_k", ks)
	h := c.arr(st, hn, hs)
	va := c.arr(st, vn, vs)
	v := c.define(x.Name()+"_v", es, fmt.Sprintf("(select (select %s %s) %s)", va, it.T, k))
	c.assume(reach, fmt.Sprintf("(=> %s (and (not (= %s 0)) (select (select %s %s) %s)))", ok, it.T, h, it.T, k))
	if vi, has := st.vis[rng]; has {
		// Go: every entry present from the start to the end of the loop is produced exactly once
		c.assume(reach, fmt.Sprintf("(=> %s (not (select %s %s)))", ok, vi.set, k))
		q := c.fresh("k")
		c.assume(reach, fmt.Sprintf("(=> (not %s) (forall ((%s %s)) (! (=> (and (select %s %s) (select (select %s %s) %s)) (select %s %s)) :pattern ((select %s %s)) :pattern ((select (select %s %s) %s)))))",
			ok, q, ks, vi.has0, q, h, it.T, q, vi.set, q, vi.set, q, h, it.T, q))
		nv := vi
		nv.set = c.defineAlways("vis", vi.sort, fmt.Sprintf("(ite %s (store %s %s true) %s)", ok, vi.set, k, vi.set))
		st.vis[rng] = nv
	}
	c.assume(reach, implies(ok, c.typeFact(k, mt.Key(), st, 1)))
	c.assume(reach, implies(ok, c.typeFact(v, mt.Elem(), st, 1)))
	c.wfMapRead(and(reach, ok), v, mt, st)
	fr.vals[x] = Val{Tup: []Val{{T: ok, Typ: types.Typ[types.Bool]}, {T: k, Typ: mt.Key()}, {T: v, Typ: mt.Elem()}}, Typ: x.Type()}
}

// ---- defer ----

func (c *Ctx) execDefer(fr *Frame, x *ssa.Defer, st *State, reach string) {
	callee := x.Call.StaticCallee()
	if callee != nil {
		full := callee.String()
		switch full {
		case "(*sync.RWMutex).RUnlock", "(*sync.RWMutex).Unlock", "(*sync.Mutex).Unlock":
			fr.deferred = append(fr.deferred, func(s *State, r string) {
				c.lockOp(fr, full, x.Call.Args[0], s, r, x.Pos())
			})
			return
		}
		if pk := callee.Pkg; pk != nil && !c.w.isRepoPkg(pk.Pkg.Path()) {
			// deferred external call (f.Close()): no effect on repo state
			return
		}
	}
	c.unsupportedf("defer of %s", x.Call.Value)
}

// ---- locks (C20) ----

func (c *Ctx) lockOp(fr *Frame, full string, recv ssa.Value, st *State, reach string, pos token.Pos) {
	g, ok := recv.(*ssa.Global)
	if !ok {
		return
	}
	gname := shortPkg(g.Pkg.Pkg.Path()) + "." + g.Name()
	if c.lockGlobal == "" {
		// the lock of the ghost is the one the guarded_by declaration names; holding some other mutex does not
		// count as holding it (a seeded change that read a guarded table under a second, new mutex was missed
		// when the first mutex a function touched was taken to be "the" lock)
		declared := ""
		for _, gv := range sortedKeys(c.sp.GuardedBy) {
			declared = c.sp.GuardedBy[gv]
			break
		}
		if declared != "" {
			c.lockGlobal = declared
		} else {
			c.lockGlobal = gname
		}
	}
	if gname != c.lockGlobal {
		return
	}
	switch {
	case strings.HasSuffix(full, ".RLock"):
		c.oblige("LOCK", "LOCK.acquire", pos, reach, "(= "+st.held+" 0)", "RLock while "+gname+" already held (not re-entrant)")
		st.held = "1"
	case strings.HasSuffix(full, ".Lock"):
		c.oblige("LOCK", "LOCK.acquire", pos, reach, "(= "+st.held+" 0)", "Lock while "+gname+" already held (not re-entrant)")
		st.held = "2"
	case strings.HasSuffix(full, ".RUnlock"):
		c.oblige("LOCK", "LOCK.release", pos, reach, "(= "+st.held+" 1)", "RUnlock without read lock")
		st.held = "0"
	case strings.HasSuffix(full, ".Unlock"):
		c.oblige("LOCK", "LOCK.release", pos, reach, "(= "+st.held+" 2)", "Unlock without write lock")
		st.held = "0"
	}
}

// lockCheck: access to a guarded global requires the lock.
func (c *Ctx) lockCheck(fr *Frame, addr ssa.Value, st *State, reach string, pos token.Pos, write bool) {
	if !c.wants("LOCK") {
		return
	}
	g := guardedGlobalOf(addr)
	if g == nil {
		return
	}
	gname := shortPkg(g.Pkg.Pkg.Path()) + "." + g.Name()
	if _, ok := c.sp.GuardedBy[gname]; !ok {
		return
	}
	if write {
		c.oblige("LOCK", "LOCK.write", pos, reach, "(= "+st.held+" 2)", "write of "+gname+" requires the write lock")
	} else {
		c.oblige("LOCK", "LOCK.read", pos, reach, "(>= "+st.held+" 1)", "read of "+gname+" requires the lock")
	}
}

// guardedGlobalOf: the value is (a load of) a global map variable.
func guardedGlobalOf(v ssa.Value) *ssa.Global {
	switch x := v.(type) {
	case *ssa.Global:
		return x
	case *ssa.UnOp:
		if x.Op == token.MUL {
			if g, ok := x.X.(*ssa.Global); ok {
				return g
			}
		}
	}
	return nil
}

// ---- frame (C06/C19) ----

func (c *Ctx) frameCheck(fr *Frame, l *Loc, st *State, reach string, pos token.Pos) {
	if !c.wants("FRAME") {
		return
	}
	if l.Kind == LLocal {
		return
	}
	arr := l.Array
	if arr == "" && len(l.Path) > 0 && !l.Path[0].isIdx {
		arr, _ = c.sorts.FieldArray(l.Root, l.Path[0].field)
	}
	if c.ecExempt(arr) {
		return
	}
	c.frameCheckRef(fr, l.Ref, "store", st, reach, pos)
}

// ecExempt: writes to EC-frame memory are not C06's concern unless the function promises `assigns nothing`.
func (c *Ctx) ecExempt(arr string) bool {
	if arr == "" {
		return false
	}
	if _, isEC := c.mods.ECArrays[arr]; !isEC {
		return false
	}
	strict := c.contract != nil && c.contract.HasAssigns && len(c.contract.Assigns) == 0
	return !strict
}

func (c *Ctx) frameCheckRef(fr *Frame, ref, what string, st *State, reach string, pos token.Pos) {
	if !c.wants("FRAME") {
		return
	}
	// fresh in this activation?
	g := fmt.Sprintf("(>= %s %s)", ref, c.entry.alloc)
	if extra := c.assignsAllows(ref); extra != "" {
		g = or(g, extra)
	}
	c.oblige("FRAME", "FRAME."+what, pos, reach, g, "write to memory that is neither fresh nor in the assigns clause")
}

// assignsAllows: disjunction of (= ref X) for declared assignable roots.
func (c *Ctx) assignsAllows(ref string) string {
	if c.contract == nil || !c.contract.HasAssigns || c.topFrame == nil {
		return ""
	}
	var alts []string
	for _, a := range c.contract.Assigns {
		if a == "EC" || a == "heap" {
			continue
		}
		e, err := ParseSpec(a)
		if err != nil {
			continue
		}
		ev := c.newSpecEval(c.topFrame, c.entry, c.entry)
		tv, err := ev.eval(e)
		if err != nil {
			c.unsupportedf("assigns %q: %v", a, err)
			continue
		}
		t := tv.T
		if _, isSl := typUnder(tv.Typ).(*types.Slice); isSl {
			t = "(s_arr " + t + ")"
		}
		alts = append(alts, fmt.Sprintf("(= %s %s)", ref, t))
	}
	return or(alts...)
}

// ---- calls ----

func (c *Ctx) execCall(fr *Frame, st *State, reach string, ins ssa.Instruction, cc *ssa.CallCommon) Val {
	var resType types.Type = cc.Signature().Results()
	if cc.Signature().Results().Len() == 1 {
		resType = cc.Signature().Results().At(0).Type()
	}
	name := "call"
	if v, ok := ins.(ssa.Value); ok {
		name = v.Name()
	}
	pos := ins.Pos()
	c.curCall = cc
	if key, ok := c.tracedKey(fr, cc); ok {
		res := c.execCallInner(fr, st, reach, ins, cc, resType, name, pos)
		c.logCall(fr, st, reach, key, cc, res)
		return res
	}
	return c.execCallInner(fr, st, reach, ins, cc, resType, name, pos)
}

func (c *Ctx) execCallInner(fr *Frame, st *State, reach string, ins ssa.Instruction, cc *ssa.CallCommon, resType types.Type, name string, pos token.Pos) Val {
	if cc.IsInvoke() {
		return c.execInvoke(fr, st, reach, name, pos, cc, resType)
	}
	var args []Val
	for _, a := range cc.Args {
		args = append(args, c.operand(fr, a, st))
	}
	switch callee := cc.Value.(type) {
	case *ssa.Builtin:
		return c.execBuiltin(fr, st, reach, name, pos, callee, cc, args, resType)
	case *ssa.Function:
		return c.callFunction(fr, st, reach, name, pos, callee, nil, args, resType)
	case *ssa.MakeClosure:
		cv := c.operand(fr, callee, st)
		return c.callFunction(fr, st, reach, name, pos, callee.Fn.(*ssa.Function), cv.Binds, args, resType)
	}
	// dynamic: maybe a value that is statically known in this frame
	fv := c.operand(fr, cc.Value, st)
	if fv.Fn != nil {
		return c.callFunction(fr, st, reach, name, pos, fv.Fn, fv.Binds, args, resType)
	}
	return c.callDynamic(fr, st, reach, name, pos, cc, fv, args, resType)
}

func (c *Ctx) callFunction(fr *Frame, st *State, reach, name string, pos token.Pos, fn *ssa.Function, binds []Val, args []Val, resType types.Type) Val {
	c.curArgs, c.curState = args, st
	defer func() { c.curArgs, c.curState = nil, nil }()
	pk := fnPkg(fn)
	if pk == nil || !c.w.isRepoPkg(pk.Pkg.Path()) {
		return c.callExternal(fr, st, reach, name, pos, fn, args, resType)
	}
	key := c.w.keyOfAny(fn)
	con := c.sp.Contracts[key]
	if con != nil && !con.Inline {
		return c.applyContract(fr, st, reach, name, pos, fn, con, args, resType)
	}
	// inline local closures and functions marked inline
	isLocalClosure := fn.Parent() != nil && sameRoot(fn, fr.fn)
	if (isLocalClosure || (con != nil && con.Inline) || c.autoInline(fn)) && fr.depth < maxInlineDepth && !c.onStack(fr, fn) {
		return c.inlineCall(fr, st, reach, name, fn, binds, args, resType)
	}
	return c.callHavoc(fr, st, reach, name, pos, fn, args, resType)
}

func sameRoot(a, b *ssa.Function) bool {
	ra, rb := a, b
	for ra.Parent() != nil {
		ra = ra.Parent()
	}
	for rb.Parent() != nil {
		rb = rb.Parent()
	}
	return ra == rb
}

func (c *Ctx) onStack(fr *Frame, fn *ssa.Function) bool {
	for f := fr; f != nil; f = f.parent {
		if f.fn == fn {
			return true
		}
	}
	return false
}

// autoInline: tiny loop-free leaf functions (accessors, constructors) are inlined.
func (c *Ctx) autoInline(fn *ssa.Function) bool {
	if len(fn.Blocks) == 0 || len(fn.Blocks) > 8 {
		return false
	}
	if ci := c.mods.cfgOf(fn); len(ci.loops) > 0 {
		return false
	}
	n := 0
	for _, b := range fn.Blocks {
		n += len(b.Instrs)
	}
	return n <= 40
}

func (c *Ctx) inlineCall(fr *Frame, st *State, reach, name string, fn *ssa.Function, binds []Val, args []Val, resType types.Type) Val {
	nf := &Frame{fn: fn, vals: map[ssa.Value]Val{}, parent: nil, depth: fr.depth + 1, tag: fmt.Sprintf("%si%d_", fr.tag, c.seq)}
	c.seq++
	for i, p := range fn.Params {
		if i < len(args) {
			nf.vals[p] = args[i]
		}
	}
	for i, fv := range fn.FreeVars {
		if i < len(binds) {
			nf.vals[fv] = binds[i]
		}
	}
	// free variables of nested closures created inside resolve through parent chain at creation; locals of
	// enclosing frames referenced by Loc carry their own frame pointer, so no parent link is needed.
	rets := c.execBody(nf, st, reach)
	if len(rets) == 0 {
		// never returns (panics on all paths): continue with an unreachable state
		c.assume(reach, "false")
		return c.havocVal(name, resType)
	}
	var conds []string
	var sts []*State
	var vals []Val
	for _, r := range rets {
		conds = append(conds, r.reach)
		sts = append(sts, r.st)
		if tup, ok := resType.(*types.Tuple); ok {
			if tup.Len() == 0 {
				vals = append(vals, Val{Typ: resType})
			} else {
				vals = append(vals, Val{Tup: r.vals, Typ: resType})
			}
		} else if len(r.vals) == 1 {
			vals = append(vals, r.vals[0])
		} else {
			vals = append(vals, Val{Typ: resType})
		}
	}
	// the caller continues only on returning paths
	c.assume(reach, or(conds...))
	merged := c.mergeStates(conds, sts)
	*st = *merged
	if tup, ok := resType.(*types.Tuple); ok && tup.Len() == 0 {
		return Val{Typ: resType}
	}
	return c.mergeVals(conds, vals, resType, name)
}

// callHavoc: a repo callee without contract: result unconstrained (typed), heap per inferred mod-set.
func (c *Ctx) callHavoc(fr *Frame, st *State, reach, name string, pos token.Pos, fn *ssa.Function, args []Val, resType types.Type) Val {
	// the default precondition of a swept function (parameters well-formed by type) is an obligation here
	if c.wants("WF") {
		for i, p := range fn.Params {
			if i >= len(args) || args[i].T == "" {
				continue
			}
			for _, f := range c.defaultFactsFor(args[i].T, p.Type(), st) {
				c.oblige("WF", "WF.arg", pos, reach, f, fmt.Sprintf("argument %d of %s must be well-formed (default precondition of a function without written contract)", i+1, c.w.keyOfAny(fn)))
			}
		}
	}
	ms := c.modsAtCurCall(fn)
	c.callEffects(st, reach, pos, ms, c.w.keyOfAny(fn))
	c.noteAssumption(fmt.Sprintf("callee %s has no contract: result unconstrained, effects = inferred mod-set", c.w.keyOfAny(fn)))
	res := c.freshResult(st, reach, name, resType)
	if c.valueResult(fn) && res.T != "" {
		c.assume(reach, c.isValTerm(res.T))
	}
	return res
}

func (c *Ctx) noteAssumption(s string) { c.assumptions[s] = true }

func (c *Ctx) applyMods(st *State, ms *ModSet) { c.applyModsImpl(st, ms) }

func (c *Ctx) freshResult(st *State, reach, name string, resType types.Type) Val {
	if tup, ok := resType.(*types.Tuple); ok && tup.Len() == 0 {
		return Val{Typ: resType}
	}
	v := c.havocVal(name, resType)
	c.assumeTyped(reach, v, resType, st, 2)
	if tup, ok := resType.(*types.Tuple); ok {
		for i := 0; i < tup.Len() && i < len(v.Tup); i++ {
			c.assumeInv(reach, v.Tup[i].T, tup.At(i).Type(), st)
		}
	} else {
		c.assumeInv(reach, v.T, resType, st)
	}
	return v
}

func (c *Ctx) callDynamic(fr *Frame, st *State, reach, name string, pos token.Pos, cc *ssa.CallCommon, fv Val, args []Val, resType types.Type) Val {
	g := c.nonNil(c.term(fv))
	c.oblige("SAFE", "SAFE.nilfunc", pos, reach, g, "call of nil function value")
	c.assume(reach, g)
	// parameter contract?
	if ps := c.paramSpecFor(fr, cc.Value); ps != nil {
		return c.applyParamSpec(fr, st, reach, name, pos, ps, fv, args, resType)
	}
	if c.mods.isPureFuncType(cc.Value.Type()) {
		ms := newModSet()
		ms.FreshTop = true
		c.callEffects(st, reach, pos, ms, "function value "+cc.Value.Name()+" of effect-free type")
		c.noteAssumption("call through a value of type " + types.TypeString(cc.Value.Type(), nil) + ": result well-typed, no write to pre-existing memory (proved for every function of that type in the sweep)")
		return c.freshResult(st, reach, name, resType)
	}
	if c.mods.isECFuncType(cc.Value.Type()) {
		ms := newModSet()
		ms.EC = true
		ms.Locks = true
		if sig, ok := cc.Value.Type().Underlying().(*types.Signature); ok {
			ms.StoreRef = c.envStoreArg(st, sig, args, 0)
		}
		c.callEffects(st, reach, pos, ms, "function value "+cc.Value.Name()+" of EC-framed type")
		c.noteAssumption("call through a value of type " + types.TypeString(cc.Value.Type(), nil) + ": result is a value, effects bounded by the EC frame (proved for every function of that type in the sweep)")
		r := c.freshResult(st, reach, name, resType)
		if isPanObjectIface(resType) && r.T != "" {
			c.assume(reach, c.isValTerm(r.T))
		}
		return r
	}
	c.callEffects(st, reach, pos, &ModSet{Top: true}, "through function value "+cc.Value.Name())
	c.noteAssumption("dynamic call through " + cc.Value.Name() + ": result unconstrained, all heap havoced")
	return c.freshResult(st, reach, name, resType)
}

func (c *Ctx) paramSpecFor(fr *Frame, v ssa.Value) *ParamSpec {
	con := c.sp.Contracts[c.w.keyOfAny(fr.fn)]
	if con == nil || con.Params == nil {
		return nil
	}
	switch x := v.(type) {
	case *ssa.Parameter:
		return con.Params[x.Name()]
	case *ssa.FreeVar:
		return con.Params[x.Name()]
	}
	return nil
}

func (c *Ctx) applyParamSpec(fr *Frame, st *State, reach, name string, pos token.Pos, ps *ParamSpec, fv Val, args []Val, resType types.Type) Val {
	ev := c.newSpecEval(fr, st, c.entry)
	for i, a := range args {
		ev.vars[fmt.Sprintf("arg%d", i+1)] = TV{T: c.term(a), Typ: a.Typ}
	}
	for _, cp := range ps.CallPre {
		tv, err := ev.eval(cp.Expr)
		if err != nil {
			c.unsupportedf("param %s callpre: %v", ps.Name, err)
			continue
		}
		c.oblige("POST", "CALLPRE."+ps.Name, pos, reach, tv.T, "precondition of function parameter "+ps.Name+": "+cp.Text)
		c.assume(reach, tv.T)
	}
	var res Val
	if ps.Pure != "" {
		// result is the spec function applied to the arguments
		sf := c.sp.SpecFuns[ps.Pure]
		if sf == nil {
			c.unsupportedf("param %s: unknown pure spec fun %s", ps.Name, ps.Pure)
			return c.freshResult(st, reach, name, resType)
		}
		c.usedSpecFuns[ps.Pure] = true
		var as []string
		for _, a := range args {
			as = append(as, c.term(a))
		}
		res = Val{T: c.define(name, c.sorts.Of(resType), "("+ps.Pure+" "+strings.Join(as, " ")+")"), Typ: resType}
		c.assumeTyped(reach, res, resType, st, 1)
	} else {
		if ps.Assigns != "nothing" {
			c.callEffects(st, reach, pos, &ModSet{Top: true}, "function parameter "+ps.Name)
		}
		res = c.freshResult(st, reach, name, resType)
	}
	ev2 := c.newSpecEval(fr, st, c.entry)
	for i, a := range args {
		ev2.vars[fmt.Sprintf("arg%d", i+1)] = TV{T: c.term(a), Typ: a.Typ}
	}
	ev2.vars["result"] = TV{T: res.T, Typ: resType}
	for _, en := range ps.Ensures {
		tv, err := ev2.eval(en.Expr)
		if err != nil {
			c.unsupportedf("param %s ensures: %v", ps.Name, err)
			continue
		}
		c.assume(reach, tv.T)
	}
	return res
}

// ---- contracts at call sites ----

func (c *Ctx) bindContractVars(ev *SpecEval, fn *ssa.Function, con *Contract, args []Val, binds []Val) {
	for i, p := range fn.Params {
		if i >= len(args) {
			break
		}
		nm := p.Name()
		if con != nil && i < len(con.ParamNames) && con.ParamNames[i] != "" && con.ParamNames[i] != "_" {
			nm = con.ParamNames[i]
		}
		ev.vars[nm] = TV{T: c.termOrEmpty(args[i]), Typ: p.Type(), V: args[i]}
	}
	for i, fv := range fn.FreeVars {
		if i < len(binds) {
			ev.vars[fv.Name()] = TV{T: c.termOrEmpty(binds[i]), Typ: fv.Type(), V: binds[i]}
		}
	}
}

func (c *Ctx) termOrEmpty(v Val) string {
	if v.T != "" {
		return v.T
	}
	if v.L != nil || len(v.Tup) > 0 {
		return ""
	}
	return c.term(v)
}

func (c *Ctx) applyContract(fr *Frame, st *State, reach, name string, pos token.Pos, fn *ssa.Function, con *Contract, args []Val, resType types.Type) Val {
	pre := st.clone()
	ev := c.newSpecEval(nil, pre, pre)
	ev.pkg = con.Pkg
	c.bindContractVars(ev, fn, con, args, nil)
	c.evalLets(ev, con)
	for _, rq := range con.Requires {
		tv, err := ev.eval(rq.Expr)
		if err != nil {
			c.unsupportedf("requires of %s: %v", con.Key, err)
			continue
		}
		c.oblige("POST", "CALLPRE."+shortKey(con.Key), pos, reach, tv.T, "precondition of "+con.Key+": "+rq.Text)
		c.assume(reach, tv.T)
	}
	// function-typed parameters with a contract: what is passed must honour it
	for _, pname := range sortedKeys(con.Params) {
		ps := con.Params[pname]
		if ps.Assigns != "nothing" {
			continue
		}
		for i, p := range fn.Params {
			nm := p.Name()
			if i < len(con.ParamNames) && con.ParamNames[i] != "" && con.ParamNames[i] != "_" {
				nm = con.ParamNames[i]
			}
			if nm != pname || i >= len(args) {
				continue
			}
			goal := "false"
			why := "a function value of unknown effects is passed for parameter " + pname + " (declared `assigns nothing`)"
			if args[i].Fn != nil {
				ms := c.mods.Of(args[i].Fn)
				if ms != nil && !ms.Top && len(ms.Arrays) == 0 && len(ms.ByParam) == 0 && len(ms.FreeVarStores) == 0 {
					goal = "true"
				} else {
					why = "function " + c.w.keyOfAny(args[i].Fn) + " passed for parameter " + pname + " (declared `assigns nothing`) may write: " + describeMods(ms)
				}
			}
			c.oblige("FRAME", "FRAME.fnarg", pos, reach, goal, why)
		}
	}
	// object-level assigns: the callee may write the named objects; the caller must own them
	var assignRefs []string
	if con.HasAssigns {
		for _, a := range con.Assigns {
			if a == "EC" || a == "heap" {
				continue
			}
			e, err := ParseSpec(a)
			if err != nil {
				c.unsupportedf("assigns %q of %s: %v", a, con.Key, err)
				continue
			}
			tv, err := ev.eval(e)
			if err != nil {
				c.unsupportedf("assigns %q of %s: %v", a, con.Key, err)
				continue
			}
			ref := tv.T
			if _, isSl := typUnder(tv.Typ).(*types.Slice); isSl {
				ref = "(s_arr " + ref + ")"
			}
			assignRefs = append(assignRefs, ref)
			if c.wants("FRAME") {
				c.oblige("FRAME", "FRAME.callassign", pos, reach, or("(= "+ref+" 0)", c.freshOrAssignable(ref)),
					"callee "+con.Key+" may write "+a+": it must be fresh here or in this function's own assigns clause")
			}
		}
	}
	if len(assignRefs) > 0 {
		c.applyModsExcept(st, c.modsAtCurCall(fn), assignRefs)
	} else {
		c.callEffects(st, reach, pos, c.contractMods(fn, con), con.Key)
	}
	res := c.freshResult(st, reach, name, resType)
	if c.valueResult(fn) && res.T != "" {
		c.assume(reach, c.isValTerm(res.T))
	}
	post := c.newSpecEval(nil, st, pre)
	post.pkg = con.Pkg
	post.allocOld = pre.alloc
	c.bindContractVars(post, fn, con, args, nil)
	c.bindResults(post, con, res, resType)
	c.evalLetsWithOld(post, con, ev)
	for _, en := range con.Ensures {
		if mentionsTrace(en.Expr, c.sp) {
			continue // about the callee's own ghost call log: meaningless here
		}
		if en.Only != "" {
			continue // an obligation of one property's check (possibly a known finding): never assumed
		}
		tv, err := post.eval(en.Expr)
		if err != nil {
			c.unsupportedf("ensures of %s: %v", con.Key, err)
			continue
		}
		c.assume(reach, tv.T)
	}
	return res
}

func shortKey(k string) string {
	if i := strings.Index(k, "."); i >= 0 {
		return k[i+1:]
	}
	return k
}

func (c *Ctx) bindResults(ev *SpecEval, con *Contract, res Val, resType types.Type) {
	if tup, ok := resType.(*types.Tuple); ok {
		for i := 0; i < tup.Len() && i < len(res.Tup); i++ {
			nm := fmt.Sprintf("res%d", i)
			if i < len(con.ResNames) {
				nm = con.ResNames[i]
			}
			ev.vars[nm] = TV{T: c.termOrEmpty(res.Tup[i]), Typ: tup.At(i).Type(), V: res.Tup[i]}
		}
		return
	}
	nm := "res"
	if len(con.ResNames) > 0 {
		nm = con.ResNames[0]
	}
	ev.vars[nm] = TV{T: c.termOrEmpty(res), Typ: resType, V: res}
}

func (c *Ctx) evalLets(ev *SpecEval, con *Contract) {
	for _, l := range con.Lets {
		tv, err := ev.eval(l.Expr)
		if err != nil {
			c.unsupportedf("let %s of %s: %v", l.Name, con.Key, err)
			continue
		}
		ev.vars[l.Name] = tv
	}
}

// lets are evaluated in the pre-state (they name entry values)
func (c *Ctx) evalLetsWithOld(post *SpecEval, con *Contract, pre *SpecEval) {
	for _, l := range con.Lets {
		if tv, ok := pre.vars[l.Name]; ok {
			post.vars[l.Name] = tv
		}
	}
}

// ---- interface method calls ----

func (c *Ctx) execInvoke(fr *Frame, st *State, reach, name string, pos token.Pos, cc *ssa.CallCommon, resType types.Type) Val {
	recv := c.operand(fr, cc.Value, st)
	rt := c.term(recv)
	g := c.nonNil(rt)
	c.oblige("SAFE", "SAFE.nilinvoke", pos, reach, g, "method call "+cc.Method.Name()+" on nil interface")
	c.assume(reach, g)
	var args []Val
	for _, a := range cc.Args {
		args = append(args, c.operand(fr, a, st))
	}
	if c.w.isRepoInterface(cc.Value.Type()) && c.mods.PureIface(cc.Value.Type(), cc.Method) {
		// dynamic types whose implementation can panic must be excluded
		for _, it := range c.nonTotalImplementers(cc.Value.Type(), cc.Method) {
			g := fmt.Sprintf("(not (= (dtype %s) %s))", rt, c.tagOf(it))
			c.oblige("SAFE", "SAFE.invoke", pos, reach, g, "method "+cc.Method.Name()+" may panic for dynamic type "+types.TypeString(it, nil))
			c.assume(reach, g)
		}
		pv := c.pureInvoke(cc.Value.Type(), cc.Method, rt, args, resType)
		// what an allocated object refers to is allocated and well-typed
		c.assumeTyped(reach, pv, resType, st, 1)
		c.assumeInv(reach, pv.T, resType, st)
		return pv
	}
	return c.dispatch(fr, st, reach, name, pos, cc.Value.Type(), cc.Method, rt, args, resType)
}

// dispatch performs closed-world dynamic dispatch on dtype(recv).
func (c *Ctx) dispatch(fr *Frame, st *State, reach, name string, pos token.Pos, ifaceT types.Type, m *types.Func, rt string, args []Val, resType types.Type) Val {
	if !c.w.isRepoInterface(ifaceT) {
		// external interface (error, io.Reader, fmt.Stringer): opaque
		c.noteAssumption("external interface method " + m.FullName() + ": result unconstrained, no effect on repo heap")
		return c.freshResult(st, reach, name, resType)
	}
	// not a pure accessor: the implementations are not expanded. Result unconstrained (well-typed),
	// effects = union of the implementers' inferred mod-sets.
	iface := ifaceT.Underlying().(*types.Interface)
	ms := newModSet()
	for _, it := range c.w.Implementers(iface) {
		sel := c.w.Prog.MethodSets.MethodSet(it).Lookup(m.Pkg(), m.Name())
		if sel == nil {
			continue
		}
		if mfn := c.w.Prog.MethodValue(sel); mfn != nil {
			if s, ok := c.mods.sets[mfn]; ok {
				ms.union(s, true)
			} else {
				ms.Top = true
			}
		}
	}
	c.callEffects(st, reach, pos, ms, "interface method "+m.Name())
	c.noteAssumption("interface method " + m.FullName() + " (not a pure accessor): result unconstrained, effects = union of implementers' inferred mod-sets")
	res := c.freshResult(st, reach, name, resType)
	// interface-level contract (assumed of every implementation): pkg.Iface.Method
	// the contract is keyed by the interface that declares the method (ast.Node.Source also covers ast.Expr/Stmt)
	declT := ifaceT
	if sig, ok := m.Type().(*types.Signature); ok && sig.Recv() != nil {
		declT = sig.Recv().Type()
	}
	if n, ok := declT.(*types.Named); ok && n.Obj().Pkg() != nil {
		if con := c.sp.Contracts[n.Obj().Pkg().Name()+"."+n.Obj().Name()+"."+m.Name()]; con != nil {
			ev := c.newSpecEval(nil, st, st)
			ev.pkg = con.Pkg
			ev.vars["recv"] = TV{T: rt, Typ: ifaceT}
			c.bindResults(ev, con, res, resType)
			for _, en := range con.Ensures {
				if tv, err := ev.eval(en.Expr); err == nil {
					c.assume(reach, tv.T)
				} else {
					c.unsupportedf("ensures of %s: %v", con.Key, err)
				}
			}
			c.noteAssumption("interface-level contract assumed for every implementation of " + con.Key)
		}
	}
	return res
}

func (c *Ctx) callMethodImpl(fr *Frame, st *State, reach, name string, pos token.Pos, mfn *ssa.Function, args []Val, resType types.Type) Val {
	if mfn.Synthetic != "" && len(mfn.Blocks) > 0 && fr.depth < maxInlineDepth {
		// promoted-method wrapper
		return c.inlineCall(fr, st, reach, name, mfn, nil, args, resType)
	}
	return c.callFunction(fr, st, reach, name, pos, mfn, nil, args, resType)
}

// ---- builtins ----

func (c *Ctx) execBuiltin(fr *Frame, st *State, reach, name string, pos token.Pos, b *ssa.Builtin, cc *ssa.CallCommon, args []Val, resType types.Type) Val {
	switch b.Name() {
	case "len":
		switch t := cc.Args[0].Type().Underlying().(type) {
		case *types.Slice:
			return Val{T: "(s_len " + c.term(args[0]) + ")", Typ: resType}
		case *types.Basic:
			return Val{T: "(strlen " + c.term(args[0]) + ")", Typ: resType}
		case *types.Map:
			ml := c.arr(st, c.sorts.MapLenT(t), "Int")
			r := c.define(name, "Int", fmt.Sprintf("(ite (= %s 0) 0 (select %s %s))", c.term(args[0]), ml, c.term(args[0])))
			c.assume(reach, fmt.Sprintf("(and (<= 0 %s) (<= %s MAXLEN))", r, r))
			return Val{T: r, Typ: resType}
		case *types.Array:
			return Val{T: fmt.Sprint(t.Len()), Typ: resType}
		case *types.Pointer:
			if at, ok := t.Elem().Underlying().(*types.Array); ok {
				return Val{T: fmt.Sprint(at.Len()), Typ: resType}
			}
		}
	case "cap":
		if _, ok := cc.Args[0].Type().Underlying().(*types.Slice); ok {
			return Val{T: "(s_cap " + c.term(args[0]) + ")", Typ: resType}
		}
	case "append":
		return c.execAppend(fr, st, reach, name, pos, cc, args, resType)
	case "copy":
		// copy(dst, src): writes dst's backing array
		d := c.term(args[0])
		c.frameCheckRef(fr, "(s_arr "+d+")", "copy", st, reach, pos)
		if sl, ok := cc.Args[0].Type().Underlying().(*types.Slice); ok {
			es := c.sorts.Of(sl.Elem())
			an := c.sorts.ElemArrayT(sl.Elem())
			a := c.arr(st, an, es)
			na := c.havoc("copied", "(Array Int "+es+")")
			n := c.havoc(name, "Int")
			var srcLen string
			if _, isStr := cc.Args[1].Type().Underlying().(*types.Basic); isStr {
				srcLen = "(strlen " + c.term(args[1]) + ")"
			} else {
				srcLen = "(s_len " + c.term(args[1]) + ")"
			}
			c.assume(reach, fmt.Sprintf("(= %s (ite (< (s_len %s) %s) (s_len %s) %s))", n, d, srcLen, d, srcLen))
			// elements outside [off, off+n) unchanged
			k := c.fresh("k")
			c.assume(reach, fmt.Sprintf("(forall ((%s Int)) (! (=> (or (< %s (s_off %s)) (>= %s (+ (s_off %s) %s))) (= (select %s %s) (select (select %s (s_arr %s)) %s))) :pattern ((select %s %s))))",
				k, k, d, k, d, n, na, k, a, d, k, na, k))
			if _, isStr := cc.Args[1].Type().Underlying().(*types.Basic); !isStr {
				s := c.term(args[1])
				c.assume(reach, fmt.Sprintf("(forall ((%s Int)) (! (=> (and (<= 0 %s) (< %s %s)) (= (select %s (+ (s_off %s) %s)) (select (select %s (s_arr %s)) (+ (s_off %s) %s)))) :pattern ((select %s (+ (s_off %s) %s)))))",
					k, k, k, n, na, d, k, a, s, s, k, na, d, k))
			}
			c.setArr(st, an, es, fmt.Sprintf("(store %s (s_arr %s) %s)", a, d, na))
			return Val{T: n, Typ: resType}
		}
	case "delete":
		m := c.term(args[0])
		k := c.term(args[1])
		c.frameCheckRef(fr, m, "mapdelete", st, reach, pos)
		mt := cc.Args[0].Type().Underlying().(*types.Map)
		hn, hs, _, _, _, _ := c.mapArrays(mt, st)
		h := c.arr(st, hn, hs)
		mln := c.sorts.MapLenT(mt)
		ml := c.arr(st, mln, "Int")
		had := fmt.Sprintf("(select (select %s %s) %s)", h, m, k)
		c.setArr(st, mln, "Int", fmt.Sprintf("(ite (= %s 0) %s (store %s %s (ite %s (- (select %s %s) 1) (select %s %s))))", m, ml, ml, m, had, ml, m, ml, m))
		c.setArr(st, hn, hs, fmt.Sprintf("(ite (= %s 0) %s (store %s %s (store (select %s %s) %s false)))", m, h, h, m, h, m, k))
		return Val{Typ: resType}
	case "print", "println":
		return Val{Typ: resType}
	case "recover":
		return c.freshResult(st, reach, name, resType)
	case "min", "max":
		if len(args) == 2 && isIntLike(resType) {
			op := "<"
			if b.Name() == "max" {
				op = ">"
			}
			a, bb := c.term(args[0]), c.term(args[1])
			return Val{T: c.define(name, "Int", fmt.Sprintf("(ite (%s %s %s) %s %s)", op, a, bb, a, bb)), Typ: resType}
		}
	}
	c.unsupportedf("builtin %s on %s", b.Name(), cc.Args[0].Type())
	return c.freshResult(st, reach, name, resType)
}

// append(s, xs...): faithful model. If len+n <= cap the elements are written in place into s's
// backing array (beyond len) and the same array is returned; otherwise a fresh array is returned.
func (c *Ctx) execAppend(fr *Frame, st *State, reach, name string, pos token.Pos, cc *ssa.CallCommon, args []Val, resType types.Type) Val {
	s := c.term(args[0])
	sl := cc.Args[0].Type().Underlying().(*types.Slice)
	es := c.sorts.Of(sl.Elem())
	an := c.sorts.ElemArrayT(sl.Elem())
	a := c.arr(st, an, es)
	var n string
	var xs string
	isStr := false
	if _, ok := cc.Args[1].Type().Underlying().(*types.Basic); ok {
		isStr = true
		n = "(strlen " + c.term(args[1]) + ")"
	} else {
		xs = c.term(args[1])
		n = "(s_len " + xs + ")"
	}
	if !isStr && c.wants("WF") && (isPanObjectIface(sl.Elem()) || len(c.typeInvsFor(sl.Elem())) > 0) {
		// every appended element must be well-formed; single-element appends (the common case) are checked
		// exactly, spreads of whole slices rely on the source slice's own well-formedness
		if sv, ok := cc.Args[1].(*ssa.Slice); ok {
			if al, ok := sv.X.(*ssa.Alloc); ok {
				if at, ok := al.Type().(*types.Pointer).Elem().Underlying().(*types.Array); ok && at.Len() <= 4 {
					esrt := c.sorts.Of(sl.Elem())
					earr := c.arr(st, c.sorts.ElemArrayT(sl.Elem()), esrt)
					for i := int64(0); i < at.Len(); i++ {
						el := c.define(name+"_el", esrt, fmt.Sprintf("(select (select %s (s_arr %s)) (+ (s_off %s) %d))", earr, xs, xs, i))
						c.wfStore(reach, pos, el, sl.Elem(), st, "append")
					}
				}
			}
		}
	}
	newLen := c.define(name+"_len", "Int", fmt.Sprintf("(+ (s_len %s) %s)", s, n))
	inPlace := c.define(name+"_inplace", "Bool", fmt.Sprintf("(<= %s (s_cap %s))", newLen, s))
	// FRAME: the in-place branch writes s's backing array
	if c.wants("FRAME") {
		g := fmt.Sprintf("(=> (and %s (> %s 0)) %s)", inPlace, n, c.freshOrAssignable("(s_arr "+s+")"))
		c.oblige("FRAME", "FRAME.append", pos, reach, g, "append may write in place into a backing array that is not fresh")
	}
	fresh := c.newRef(st, reach, name+"_arr", nil)
	newCap := c.havoc(name+"_cap", "Int")
	c.assume(reach, fmt.Sprintf("(and (>= %s %s) (<= %s MAXLEN))", newCap, newLen, newCap))
	// a constant (not a macro): it occurs inside quantifier patterns, where `ite` is not allowed
	res := c.havoc(name, "Slice")
	c.assume(reach, fmt.Sprintf("(= %s (ite %s (mk_slice (s_arr %s) (s_off %s) %s (s_cap %s)) (mk_slice %s 0 %s %s)))",
		res, inPlace, s, s, newLen, s, fresh, newLen, newCap))
	// contents of the result's backing array
	na := c.havoc(name+"_elems", "(Array Int "+es+")")
	k := c.fresh("k")
	// old elements preserved (positions relative to result offset)
	c.assume(reach, fmt.Sprintf("(forall ((%s Int)) (! (=> (and (<= 0 %s) (< %s (s_len %s))) (= (select %s (+ (s_off %s) %s)) (select (select %s (s_arr %s)) (+ (s_off %s) %s)))) :pattern ((select %s (+ (s_off %s) %s)))))",
		k, k, k, s, na, res, k, a, s, s, k, na, res, k))
	if !isStr {
		c.assume(reach, fmt.Sprintf("(forall ((%s Int)) (! (=> (and (<= 0 %s) (< %s %s)) (= (select %s (+ (s_off %s) (s_len %s) %s)) (select (select %s (s_arr %s)) (+ (s_off %s) %s)))) :pattern ((select %s (+ (s_off %s) (s_len %s) %s)))))",
			k, k, k, n, na, res, s, k, a, xs, xs, k, na, res, s, k))
	}
	// appends of a short literal list (the common `append(s, x)`): the new elements as ground facts, so that
	// proofs do not depend on instantiating the quantified fact above modulo arithmetic
	if !isStr {
		if sv, ok := cc.Args[1].(*ssa.Slice); ok {
			if al, ok := sv.X.(*ssa.Alloc); ok {
				if at, ok := al.Type().(*types.Pointer).Elem().Underlying().(*types.Array); ok && at.Len() <= 4 {
					for j := int64(0); j < at.Len(); j++ {
						c.assume(reach, fmt.Sprintf("(= (select %s (+ (s_off %s) (s_len %s) %d)) (select (select %s (s_arr %s)) (+ (s_off %s) %d)))",
							na, res, s, j, a, xs, xs, j))
					}
				}
			}
		}
	}
	// in place: everything outside the appended window is unchanged
	c.assume(reach, fmt.Sprintf("(=> %s (forall ((%s Int)) (! (=> (or (< %s (+ (s_off %s) (s_len %s))) (>= %s (+ (s_off %s) %s))) (= (select %s %s) (select (select %s (s_arr %s)) %s))) :pattern ((select %s %s)))))",
		inPlace, k, k, s, s, k, s, newLen, na, k, a, s, k, na, k))
	c.setArr(st, an, es, fmt.Sprintf("(store %s (s_arr %s) %s)", a, res, na))
	rv := Val{T: res, Typ: resType}
	c.assume(reach, fmt.Sprintf("(<= %s MAXLEN)", newLen))
	return rv
}

func (c *Ctx) freshOrAssignable(ref string) string {
	g := fmt.Sprintf("(>= %s %s)", ref, c.entry.alloc)
	if extra := c.assignsAllows(ref); extra != "" {
		g = or(g, extra)
	}
	return g
}

// contractMods: heap effects a caller must assume of a callee with a contract.
//
//	assigns nothing        -> only fresh objects (from the inferred Fresh set)
//	assigns EC | heap      -> everything
//	assigns <objects>      -> the inferred mod-set (which arrays), objects not yet distinguished
//	no assigns clause      -> the inferred mod-set
func (c *Ctx) contractMods(fn *ssa.Function, con *Contract) *ModSet {
	inf := c.modsAtCurCall(fn)
	if !con.HasAssigns {
		return inf
	}
	if len(con.Assigns) == 0 {
		ms := newModSet()
		if inf != nil {
			for k, v := range inf.Fresh {
				ms.Fresh[k] = v
			}
			// arrays the inference thinks may be written: the contract promises pre-existing objects are
			// untouched, so they too only change at fresh references
			for k, v := range inf.Arrays {
				ms.Fresh[k] = v
			}
			if inf.Top {
				ms.FreshTop = true
			}
			ms.Locks = inf.Locks || inf.Top
		}
		return ms
	}
	for _, a := range con.Assigns {
		if a == "heap" {
			return &ModSet{Top: true}
		}
		if a == "EC" {
			ms := newModSet()
			ms.EC = true
			ms.Locks = true
			if c.curArgs != nil && c.curState != nil {
				off := 0
				if fn.Signature.Recv() != nil {
					off = 1
				}
				ms.StoreRef = c.envStoreArg(c.curState, fn.Signature, c.curArgs, off)
			}
			return ms
		}
	}
	return inf
}

// callEffects applies a callee's heap effects and, for the FRAME family, demands that a callee which may
// write pre-existing memory is covered by the caller's own assigns clause.
func (c *Ctx) callEffects(st *State, reach string, pos token.Pos, ms *ModSet, what string) {
	if c.wants("FRAME") && ms != nil {
		strict := c.contract != nil && c.contract.HasAssigns && len(c.contract.Assigns) == 0
		allowedAll := false
		if c.contract != nil && c.contract.HasAssigns {
			for _, a := range c.contract.Assigns {
				if a == "heap" {
					allowedAll = true
				}
			}
		}
		var bad []string
		if ms.Top {
			bad = append(bad, "unknown effects")
		}
		if ms.EC && strict {
			bad = append(bad, "the EC frame (variables, iterator state, stack traces)")
		}
		for _, n := range sortedKeys(ms.Arrays) {
			if _, isEC := c.mods.ECArrays[n]; isEC && !strict {
				continue
			}
			bad = append(bad, n)
		}
		if len(bad) > 0 && !allowedAll {
			c.oblige("FRAME", "FRAME.call", pos, reach, "false",
				"callee "+what+" may write pre-existing memory ("+strings.Join(bad, ",")+") outside this function's frame")
		}
		// scope discipline: an evaluating callee writes (at most) the variables of the scope it is given
		if ms.EC && !allowedAll && c.storeStrict() {
			switch ms.StoreRef {
			case "":
			case "*":
				c.oblige("FRAME", "FRAME.scope", pos, reach, "false", "callee "+what+" may assign variables of an unknown scope")
			default:
				c.oblige("FRAME", "FRAME.scope", pos, reach, c.storeAllowed(ms.StoreRef),
					"callee "+what+" assigns variables of the scope it is given: that must be this function's own scope or one created here")
			}
		}
	}
	c.applyMods(st, ms)
}

// storeStrict: functions held to the EC frame (explicitly or by package default) obey the scope discipline.
func (c *Ctx) storeStrict() bool {
	if c.contract != nil && c.contract.HasAssigns {
		for _, a := range c.contract.Assigns {
			if a == "EC" {
				return true
			}
		}
		return len(c.contract.Assigns) == 0
	}
	return c.mods.defaultFrameOf(c.fn) == "EC" || c.mods.isECFuncValue(c.fn)
}

func (c *Ctx) modsAtCurCall(fn *ssa.Function) *ModSet {
	var ms *ModSet
	if c.curCall != nil && c.curCall.StaticCallee() == fn {
		ms = c.mods.AtCall(fn, c.curCall.Args)
	} else {
		ms = c.mods.AtCall(fn, nil)
	}
	if ms != nil && ms.EC && c.curArgs != nil && c.curState != nil {
		cp := *ms
		off := 0
		if fn.Signature.Recv() != nil {
			off = 1
		}
		cp.StoreRef = c.envStoreArg(c.curState, fn.Signature, c.curArgs, off)
		return &cp
	}
	return ms
}

// ---- ghost call log -------------------------------------------------------------------------
// Direct calls of `traced` functions (and every call through a function-typed parameter or captured
// variable) are appended to a ghost log (callee id, up to three reference/int arguments, first result).
// Contracts speak about it with ncalls, called(i, f), arg1(i)..arg3(i), result(i).

func dynID(name string) int {
	h := 0
	for _, r := range name {
		h = (h*31 + int(r)) % 1000003
	}
	return -(h + 1)
}

func (c *Ctx) tracedKey(fr *Frame, cc *ssa.CallCommon) (int, bool) {
	if c.specDepth > 0 || cc.IsInvoke() {
		return 0, false
	}
	if fr != c.topFrame {
		// the log records the calls this activation makes itself; calls made inside a helper that the engine
		// happens to inline belong to the helper (otherwise the meaning of ncalls would depend on inlining)
		return 0, false
	}
	if callee := cc.StaticCallee(); callee != nil {
		if _, isClosure := cc.Value.(*ssa.MakeClosure); isClosure {
			return 0, false
		}
		if c.sp.Traced[c.w.keyOfAny(callee)] {
			return c.w.fnID(callee), true
		}
		return 0, false
	}
	switch v := cc.Value.(type) {
	case *ssa.Parameter:
		return dynID(v.Name()), true
	case *ssa.FreeVar:
		return dynID(v.Name()), true
	case *ssa.UnOp:
		// a captured variable that the enclosing function reassigns is captured by reference
		if fv, ok := v.X.(*ssa.FreeVar); ok && v.Op == token.MUL {
			return dynID(fv.Name()), true
		}
	case *ssa.Builtin:
		return 0, false
	}
	if c.mods.isECFuncType(cc.Value.Type()) {
		return dynID(types.TypeString(cc.Value.Type(), func(p *types.Package) string { return p.Name() })), true
	}
	return 0, false
}

func (c *Ctx) logCall(fr *Frame, st *State, reach string, id int, cc *ssa.CallCommon, res Val) {
	n := st.trN
	put := func(arr, val string) {
		a := c.arr(st, arr, "Int")
		c.setArr(st, arr, "Int", fmt.Sprintf("(store %s %s %s)", a, n, val))
	}
	put("TR_fn", smtInt(int64(id)))
	if cc.StaticCallee() == nil && !cc.IsInvoke() {
		if fv := c.operand(fr, cc.Value, st); fv.T != "" || fv.Fn != nil {
			put("TR_callee", c.term(fv))
		}
	}
	k := 0
	loggedSlice, loggedSlice2 := false, false
	for ai, a := range cc.Args {
		if k >= 6 {
			break
		}
		srt := c.sorts.Of(a.Type())
		if srt == "Slice" && isPanObjectElems(a.Type()) && ai == len(cc.Args)-1 && cc.Signature().Variadic() {
			// variadic []PanObject: its first elements take the next argument slots
			sv := c.term(c.operand(fr, a, st))
			earr := c.arr(st, c.sorts.ElemArrayT(a.Type().Underlying().(*types.Slice).Elem()), "Int")
			for j := 0; k < 6 && j < 4; j++ {
				k++
				put(fmt.Sprintf("TR_a%d", k), fmt.Sprintf("(select (select %s (s_arr %s)) (+ (s_off %s) %d))", earr, sv, sv, j))
			}
			put("TR_len", "(s_len "+sv+")")
			continue
		}
		if srt == "Slice" && !loggedSlice {
			loggedSlice = true
			sv := c.term(c.operand(fr, a, st))
			put("TR_sa_arr", "(s_arr "+sv+")")
			put("TR_sa_off", "(s_off "+sv+")")
			put("TR_sa_len", "(s_len "+sv+")")
			put("TR_sa_cap", "(s_cap "+sv+")")
			continue
		}
		if srt == "Slice" && !loggedSlice2 {
			loggedSlice2 = true
			sv := c.term(c.operand(fr, a, st))
			put("TR_sb_arr", "(s_arr "+sv+")")
			put("TR_sb_off", "(s_off "+sv+")")
			put("TR_sb_len", "(s_len "+sv+")")
			put("TR_sb_cap", "(s_cap "+sv+")")
			continue
		}
		if srt != "Int" && srt != "Bool" {
			continue
		}
		v := c.operand(fr, a, st)
		t := c.term(v)
		if srt == "Bool" {
			t = "(ite " + t + " 1 0)"
		}
		k++
		put(fmt.Sprintf("TR_a%d", k), t)
	}
	r := res
	if len(res.Tup) > 0 {
		r = res.Tup[0]
		if len(res.Tup) > 1 && res.Tup[1].T != "" && res.Tup[1].Typ != nil {
			switch c.sorts.Of(res.Tup[1].Typ) {
			case "Bool":
				put("TR_res2", "(ite "+res.Tup[1].T+" 1 0)")
			case "Int":
				put("TR_res2", res.Tup[1].T)
			}
		}
		for _, x := range res.Tup[1:] {
			if x.T != "" && x.Typ != nil && c.sorts.Of(x.Typ) == "Slice" {
				put("TR_sr_arr", "(s_arr "+x.T+")")
				put("TR_sr_off", "(s_off "+x.T+")")
				put("TR_sr_len", "(s_len "+x.T+")")
				put("TR_sr_cap", "(s_cap "+x.T+")")
				break
			}
		}
	}
	if r.T != "" && r.Typ != nil {
		switch c.sorts.Of(r.Typ) {
		case "Int":
			put("TR_res", r.T)
		case "Bool":
			put("TR_res", "(ite "+r.T+" 1 0)")
		}
	}
	st.trN = c.define("trn", "Int", "(+ "+n+" 1)")
}

func isPanObjectElems(t types.Type) bool {
	sl, ok := t.Underlying().(*types.Slice)
	return ok && isPanObjectIface(sl.Elem())
}

// envStoreArg: the Store of the first *object.Env argument of a call (the callee's own scope).
func (c *Ctx) envStoreArg(st *State, sig *types.Signature, args []Val, recvOffset int) string {
	for i := 0; i < sig.Params().Len(); i++ {
		if types.TypeString(sig.Params().At(i).Type(), nil) == "*"+repoMod+"/object.Env" {
			j := i + recvOffset
			if j < len(args) && args[j].T != "" {
				envT, _ := c.w.LookupType("object.Env", "object")
				st2 := envT.Underlying().(*types.Struct)
				for f := 0; f < st2.NumFields(); f++ {
					if st2.Field(f).Name() == "Store" {
						return c.readField(st, envT, f, args[j].T)
					}
				}
			}
			return "*"
		}
	}
	return ""
}

// myStore: the store of this function's own env parameter at entry ("" if it has none).
func (c *Ctx) myStoreRef() string {
	if c.myStore != "" || c.topFrame == nil {
		return c.myStore
	}
	fn := c.fn
	var args []Val
	for _, p := range fn.Params {
		args = append(args, c.topFrame.vals[p])
	}
	// signature params exclude the receiver; fn.Params include it
	off := 0
	if fn.Signature.Recv() != nil {
		off = 1
	}
	s := c.envStoreArg(c.entry, fn.Signature, args, off)
	if s == "*" {
		s = ""
	}
	c.myStore = s
	return s
}

// storeAllowed: may this activation let the store `s` be written? Only its own scope or a scope created here.
func (c *Ctx) storeAllowed(s string) string {
	g := or(fmt.Sprintf("(>= %s %s)", s, c.entry.alloc), "(iterStore "+s+")")
	if ms := c.myStoreRef(); ms != "" {
		g = or(g, fmt.Sprintf("(= %s %s)", s, ms))
	}
	if extra := c.assignsAllows(s); extra != "" {
		g = or(g, extra)
	}
	return g
}
