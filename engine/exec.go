package main

import (
	"fmt"
	"go/constant"
	"go/token"
	"go/types"
	"os"
	"runtime/debug"
	"sort"
	"strings"

	"golang.org/x/tools/go/ssa"
)

type retPoint struct {
	reach string
	st    *State
	vals  []Val
	pos   token.Pos
}

type blockOut struct {
	st    *State
	reach string
	conds []string // per successor index
}

type loopInfo struct {
	header    *ssa.BasicBlock
	ordinal   int
	blocks    map[*ssa.BasicBlock]bool
	backs     []*ssa.BasicBlock // preds with back edge
	headSt    *State            // state at the loop header (start of an arbitrary iteration)
	entrySt   *State            // state on arrival at the loop (before its first iteration)
	entryPhis map[*ssa.Phi]Val
}

// cfgInfo: back edges, loop headers, topological order ignoring back edges.
type cfgInfo struct {
	order     []*ssa.BasicBlock
	back      map[[2]int]bool
	loops     map[*ssa.BasicBlock]*loopInfo
	reachable map[*ssa.BasicBlock]bool
}

func analyzeCFG(fn *ssa.Function) *cfgInfo {
	ci := &cfgInfo{back: map[[2]int]bool{}, loops: map[*ssa.BasicBlock]*loopInfo{}, reachable: map[*ssa.BasicBlock]bool{}}
	if len(fn.Blocks) == 0 {
		return ci
	}
	color := map[*ssa.BasicBlock]int{}
	var post []*ssa.BasicBlock
	var dfs func(b *ssa.BasicBlock)
	dfs = func(b *ssa.BasicBlock) {
		color[b] = 1
		ci.reachable[b] = true
		for _, s := range b.Succs {
			switch color[s] {
			case 0:
				dfs(s)
			case 1:
				ci.back[[2]int{b.Index, s.Index}] = true
			}
		}
		color[b] = 2
		post = append(post, b)
	}
	dfs(fn.Blocks[0])
	for i := len(post) - 1; i >= 0; i-- {
		ci.order = append(ci.order, post[i])
	}
	// loops
	for e := range ci.back {
		tail, head := fn.Blocks[e[0]], fn.Blocks[e[1]]
		li := ci.loops[head]
		if li == nil {
			li = &loopInfo{header: head, blocks: map[*ssa.BasicBlock]bool{head: true}}
			ci.loops[head] = li
		}
		li.backs = append(li.backs, tail)
		// natural loop: nodes reaching tail without passing head
		var stack []*ssa.BasicBlock
		if !li.blocks[tail] {
			li.blocks[tail] = true
			stack = append(stack, tail)
		}
		for len(stack) > 0 {
			n := stack[len(stack)-1]
			stack = stack[:len(stack)-1]
			for _, p := range n.Preds {
				if !li.blocks[p] && ci.reachable[p] {
					li.blocks[p] = true
					stack = append(stack, p)
				}
			}
		}
	}
	// ordinals in source order (by position of header's first instr, fallback index)
	var hs []*ssa.BasicBlock
	for h := range ci.loops {
		hs = append(hs, h)
	}
	posOf := func(b *ssa.BasicBlock) int {
		best := 1 << 30
		for _, bb := range fn.Blocks {
			if !ci.loops[b].blocks[bb] {
				continue
			}
			for _, ins := range bb.Instrs {
				if p := ins.Pos(); p.IsValid() && int(p) < best {
					best = int(p)
				}
			}
		}
		return best
	}
	for i := 0; i < len(hs); i++ {
		for j := i + 1; j < len(hs); j++ {
			if posOf(hs[j]) < posOf(hs[i]) || (posOf(hs[j]) == posOf(hs[i]) && hs[j].Index < hs[i].Index) {
				hs[i], hs[j] = hs[j], hs[i]
			}
		}
	}
	for i, h := range hs {
		ci.loops[h].ordinal = i + 1
	}
	return ci
}

// execBody symbolically executes fr.fn from its entry block.
func (c *Ctx) execBody(fr *Frame, st0 *State, reach0 string) []retPoint {
	fn := fr.fn
	if len(fn.Blocks) == 0 {
		c.unsupportedf("function %s has no body", fn)
		return nil
	}
	ci := analyzeCFG(fn)
	fr.cfg = ci
	outs := map[*ssa.BasicBlock]*blockOut{}
	var rets []retPoint
	for _, b := range ci.order {
		var st *State
		var reach string
		if b.Index == 0 {
			st, reach = st0, reach0
		} else {
			// gather incoming forward edges
			type inc struct {
				cond string
				st   *State
				pidx int
			}
			var incs []inc
			for pi, p := range b.Preds {
				if ci.back[[2]int{p.Index, b.Index}] {
					continue
				}
				po := outs[p]
				if po == nil {
					continue // unreachable pred
				}
				// which successor index of p is b? (may be both)
				var conds []string
				for si, s := range p.Succs {
					if s == b {
						conds = append(conds, po.conds[si])
					}
				}
				cond := or(conds...)
				if cond == "false" {
					continue
				}
				incs = append(incs, inc{cond, po.st, pi})
			}
			if len(incs) == 0 {
				continue
			}
			var conds []string
			var sts []*State
			for _, in := range incs {
				conds = append(conds, in.cond)
				sts = append(sts, in.st)
			}
			reach = c.define(fmt.Sprintf("%sreach_b%d", fr.tag, b.Index), "Bool", or(conds...))
			li := ci.loops[b]
			if li == nil {
				st = c.mergeStates(conds, sts)
				// phis
				for _, ins := range b.Instrs {
					phi, ok := ins.(*ssa.Phi)
					if !ok {
						break
					}
					var vs []Val
					for _, in := range incs {
						vs = append(vs, c.operand(fr, phi.Edges[in.pidx], sts[0]))
					}
					fr.vals[phi] = c.mergeVals(conds, vs, phi.Type(), phi.Name())
				}
			} else {
				// loop header: check invariants on entry, havoc, assume invariants
				entrySt := c.mergeStates(conds, sts)
				entryPhis := map[*ssa.Phi]Val{}
				for _, ins := range b.Instrs {
					phi, ok := ins.(*ssa.Phi)
					if !ok {
						break
					}
					var vs []Val
					for _, in := range incs {
						vs = append(vs, c.operand(fr, phi.Edges[in.pidx], sts[0]))
					}
					entryPhis[phi] = c.mergeVals(conds, vs, phi.Type(), phi.Name())
				}
				li.entrySt = entrySt.clone()
				li.entryPhis = entryPhis
				c.checkInvariants(fr, li, entrySt, reach, entryPhis, "entry", b)
				st = c.havocLoop(fr, li, entrySt, reach)
				for _, ins := range b.Instrs {
					phi, ok := ins.(*ssa.Phi)
					if !ok {
						break
					}
					v := c.havocVal(phi.Name(), phi.Type())
					fr.vals[phi] = v
					c.assumeTyped(reach, v, phi.Type(), st, 2)
				}
				c.assumeInvariants(fr, li, st, reach)
				li.headSt = st.clone()
			}
		}
		out := c.execBlock(fr, b, st, reach, &rets)
		outs[b] = out
		// back edges from this block: assert invariants
		for si, s := range b.Succs {
			if ci.back[[2]int{b.Index, s.Index}] {
				li := ci.loops[s]
				// find pred index of b in s
				phis := map[*ssa.Phi]Val{}
				for pi, p := range s.Preds {
					if p != b {
						continue
					}
					for _, ins := range s.Instrs {
						phi, ok := ins.(*ssa.Phi)
						if !ok {
							break
						}
						phis[phi] = c.operand(fr, phi.Edges[pi], out.st)
					}
					break
				}
				c.checkInvariants(fr, li, out.st, and(out.reach, out.conds[si]), phis, "back", s)
			}
		}
	}
	return rets
}

func (c *Ctx) mergeStates(conds []string, sts []*State) *State {
	if len(sts) == 1 {
		return sts[0].clone()
	}
	n := sts[0].clone()
	// heap
	keys := map[string]bool{}
	for _, s := range sts {
		for k := range s.heap {
			keys[k] = true
		}
	}
	for _, k := range sortedKeys(keys) {
		var vs []string
		same := true
		for _, s := range sts {
			v, ok := s.heap[k]
			if !ok {
				v = c.arr(s, k, c.arrays[k])
			}
			vs = append(vs, v)
			if v != vs[0] {
				same = false
			}
		}
		if same {
			n.heap[k] = vs[0]
			continue
		}
		n.heap[k] = c.defineAlways(k, c.arraySortDecl(k), iteChain(conds, vs))
	}
	lkeys := map[*ssa.Alloc]bool{}
	for _, s := range sts {
		for k := range s.locals {
			lkeys[k] = true
		}
	}
	for _, k := range sortedAllocs(lkeys) {
		var vs []string
		same := true
		for _, s := range sts {
			v, ok := s.locals[k]
			if !ok {
				v = c.sorts.Zero(k.Type().(*types.Pointer).Elem())
			}
			vs = append(vs, v)
			if v != vs[0] {
				same = false
			}
		}
		if same {
			n.locals[k] = vs[0]
			continue
		}
		n.locals[k] = c.defineAlways("loc_"+k.Comment, c.sorts.Of(k.Type().(*types.Pointer).Elem()), iteChain(conds, vs))
	}
	// visited sets of map ranges
	{
		rk := map[*ssa.Range]bool{}
		for _, s := range sts {
			for k := range s.vis {
				rk[k] = true
			}
		}
		var rs []*ssa.Range
		for k := range rk {
			rs = append(rs, k)
		}
		sort.Slice(rs, func(i, j int) bool {
			return rs[i].Pos() < rs[j].Pos() || (rs[i].Pos() == rs[j].Pos() && rs[i].Name() < rs[j].Name())
		})
		for _, k := range rs {
			var vs []string
			same, all := true, true
			var info visInfo
			for _, s := range sts {
				v, ok := s.vis[k]
				if !ok {
					all = false
					break
				}
				info = v
				vs = append(vs, v.set)
				if v.set != vs[0] {
					same = false
				}
			}
			if !all {
				if n.vis != nil {
					delete(n.vis, k)
				}
				continue
			}
			if n.vis == nil {
				n.vis = map[*ssa.Range]visInfo{}
			}
			if same {
				n.vis[k] = info
				continue
			}
			info.set = c.defineAlways("vis", info.sort, iteChain(conds, vs))
			n.vis[k] = info
		}
	}
	for _, s := range sts {
		if s.epoch != n.epoch {
			c.epochSeq++
			n.epoch = c.epochSeq
			break
		}
	}
	{
		var ns []string
		same := true
		for _, s := range sts {
			ns = append(ns, s.trN)
			if s.trN != ns[0] {
				same = false
			}
		}
		if !same {
			n.trN = c.defineAlways("trn", "Int", iteChain(conds, ns))
		}
	}
	var as, hs []string
	sameA, sameH := true, true
	for _, s := range sts {
		as = append(as, s.alloc)
		hs = append(hs, s.held)
		if s.alloc != as[0] {
			sameA = false
		}
		if s.held != hs[0] {
			sameH = false
		}
	}
	if !sameA {
		n.alloc = c.defineAlways("alloc", "Int", iteChain(conds, as))
	}
	if !sameH {
		n.held = c.defineAlways("held", "Int", iteChain(conds, hs))
	}
	return n
}

func iteChain(conds, vs []string) string {
	r := vs[len(vs)-1]
	for i := len(vs) - 2; i >= 0; i-- {
		r = ite(conds[i], vs[i], r)
	}
	return r
}

func (c *Ctx) mergeVals(conds []string, vs []Val, t types.Type, name string) Val {
	if len(vs) == 1 {
		return vs[0]
	}
	if tup, ok := t.(*types.Tuple); ok {
		out := Val{Typ: t}
		for i := 0; i < tup.Len(); i++ {
			var sub []Val
			for _, v := range vs {
				sub = append(sub, v.Tup[i])
			}
			out.Tup = append(out.Tup, c.mergeVals(conds, sub, tup.At(i).Type(), fmt.Sprintf("%s_%d", name, i)))
		}
		return out
	}
	allSameFn := true
	for _, v := range vs {
		if v.L != nil {
			c.unsupportedf("phi of location values (%s)", name)
			return c.havocVal(name, t)
		}
		if v.Fn == nil || v.Fn != vs[0].Fn || len(v.Binds) > 0 {
			allSameFn = false
		}
	}
	if allSameFn {
		return vs[0]
	}
	var ts []string
	for _, v := range vs {
		ts = append(ts, c.term(v))
	}
	// merged values are named by constants (not macros): they may occur inside quantifier patterns, where
	// the ite/and of a macro expansion is not allowed
	srt := c.sorts.Of(t)
	term := iteChain(conds, ts)
	if c.specDepth == 0 && (srt == "Slice" || srt == "Int") && strings.Contains(term, "(ite ") {
		n := c.havoc(name, srt)
		c.lines = append(c.lines, fmt.Sprintf("(assert (= %s %s))", n, term))
		return Val{T: n, Typ: t}
	}
	return Val{T: c.define(name, srt, term), Typ: t}
}

// bindFun: uninterpreted accessor "k-th captured value" of a closure reference, per sort.
func (c *Ctx) bindFun(k int, srt string) string {
	name := fmt.Sprintf("clbind%d_%s", k, sanitize(srt))
	c.declFun(name, "(Int) "+srt)
	return name
}

// term forces a Val into an SMT term (function values get a ref with fnid).
func (c *Ctx) term(v Val) string {
	if v.T != "" {
		return v.T
	}
	if v.Fn != nil {
		// a function constant: stable ref per function
		id := c.w.TypeTag(types.NewPointer(types.Typ[types.Bool])) // dummy to keep tags stable
		_ = id
		name := "fn_" + sanitize(c.w.keyOfAny(v.Fn))
		if len(v.Binds) > 0 {
			// closure object: fresh each time
			n := c.havoc("clo_"+sanitize(v.Fn.Name()), "Int")
			c.assume("true", fmt.Sprintf("(and (> %s nglobals) (= (fnid %s) %d))", n, n, c.w.fnID(v.Fn)))
			// what it captured (by-value captures of scalar, reference and slice type)
			for k, b := range v.Binds {
				if k < len(v.Snaps) && v.Snaps[k].T != "" {
					// captured by reference but never reassigned: its content
					c.assume("true", fmt.Sprintf("(= (%s %s) %s)", c.bindFun(k, c.sorts.Of(v.Snaps[k].Typ)), n, v.Snaps[k].T))
					continue
				}
				if k >= len(v.Fn.FreeVars) || b.L != nil || len(b.Tup) > 0 {
					continue
				}
				srt := c.sorts.Of(v.Fn.FreeVars[k].Type())
				if b.T == "" && b.Fn == nil {
					continue
				}
				if b.Fn != nil && len(b.Binds) > 0 {
					continue
				}
				c.assume("true", fmt.Sprintf("(= (%s %s) %s)", c.bindFun(k, srt), n, c.term(b)))
			}
			return n
		}
		if _, ok := c.globals[name]; !ok {
			c.globals[name] = name
		}
		return name
	}
	if v.L != nil {
		if os.Getenv("GOCV_DEBUG_OBL") != "" {
			debug.PrintStack()
		}
		c.unsupportedf("address of a field/element/local used as a value")
		return c.havoc("addr", "Int")
	}
	if len(v.Tup) > 0 {
		c.unsupportedf("tuple used as a term")
	}
	return "0"
}

func (w *World) keyOfAny(fn *ssa.Function) string {
	if k, ok := w.FuncKey[fn]; ok {
		return k
	}
	return fn.String()
}

var fnIDs = map[*ssa.Function]int{}

// sortedAllocs: deterministic order over address-taken locals (query text must not depend on map order)
func sortedAllocs[V any](m map[*ssa.Alloc]V) []*ssa.Alloc {
	ks := make([]*ssa.Alloc, 0, len(m))
	for k := range m {
		ks = append(ks, k)
	}
	key := func(a *ssa.Alloc) string {
		p := ""
		if a.Parent() != nil {
			p = a.Parent().String()
		}
		return fmt.Sprintf("%s|%012d|%s", p, int(a.Pos()), a.Name())
	}
	sort.Slice(ks, func(i, j int) bool { return key(ks[i]) < key(ks[j]) })
	return ks
}

func (w *World) fnID(fn *ssa.Function) int {
	// stable across runs: position in the sorted list of repository functions
	if len(fnIDs) == 0 {
		for i, f := range w.AllFuncs {
			fnIDs[f] = i + 1
		}
	}
	if id, ok := fnIDs[fn]; ok {
		return id
	}
	id := len(fnIDs) + 1
	fnIDs[fn] = id
	return id
}

func (c *Ctx) havocVal(name string, t types.Type) Val {
	if tup, ok := t.(*types.Tuple); ok {
		out := Val{Typ: t}
		for i := 0; i < tup.Len(); i++ {
			out.Tup = append(out.Tup, c.havocVal(fmt.Sprintf("%s_%d", name, i), tup.At(i).Type()))
		}
		return out
	}
	return Val{T: c.havoc(name, c.sorts.Of(t)), Typ: t}
}

// assumeTyped adds the facts every Go value of type t satisfies.
func (c *Ctx) assumeTyped(reach string, v Val, t types.Type, st *State, depth int) {
	if tup, ok := t.(*types.Tuple); ok {
		for i := 0; i < tup.Len() && i < len(v.Tup); i++ {
			c.assumeTyped(reach, v.Tup[i], tup.At(i).Type(), st, depth)
		}
		return
	}
	if v.T == "" {
		return
	}
	if f := c.typeFact(v.T, t, st, depth); f != "true" {
		c.assume(reach, f)
	}
}

func intRange(t types.Type) (lo, hi string, ok bool) {
	b, isB := t.Underlying().(*types.Basic)
	if !isB || b.Info()&types.IsInteger == 0 {
		return "", "", false
	}
	switch b.Kind() {
	case types.Int, types.Int64, types.UntypedInt:
		return "(- 9223372036854775808)", "9223372036854775807", true
	case types.Int32, types.UntypedRune:
		return "(- 2147483648)", "2147483647", true
	case types.Int16:
		return "(- 32768)", "32767", true
	case types.Int8:
		return "(- 128)", "127", true
	case types.Uint, types.Uint64, types.Uintptr:
		return "0", "18446744073709551615", true
	case types.Uint32:
		return "0", "4294967295", true
	case types.Uint16:
		return "0", "65535", true
	case types.Uint8:
		return "0", "255", true
	}
	return "", "", false
}

func (c *Ctx) typeFact(term string, t types.Type, st *State, depth int) string {
	switch u := t.Underlying().(type) {
	case *types.Basic:
		if lo, hi, ok := intRange(t); ok {
			return fmt.Sprintf("(and (<= %s %s) (<= %s %s))", lo, term, term, hi)
		}
		return "true"
	case *types.Pointer:
		f := fmt.Sprintf("(and (<= 0 %s) (< %s %s))", term, term, st.alloc)
		if _, ok := u.Elem().Underlying().(*types.Struct); ok {
			if _, named := u.Elem().(*types.Named); named {
				f = and(f, fmt.Sprintf("(=> (not (= %s 0)) (= (dtype %s) %s))", term, term, c.tagOf(t)))
			}
		}
		return f
	case *types.Interface:
		f := fmt.Sprintf("(and (<= 0 %s) (< %s %s))", term, term, st.alloc)
		// closed world: a non-nil value of a repository interface type holds one of its implementers
		if c.w.isRepoInterface(t) && u.NumMethods() > 0 && c.specDepth == 0 {
			f = and(f, fmt.Sprintf("(=> (not (= %s 0)) %s)", term, c.typeTest(term, t)))
		}
		return f
	case *types.Map, *types.Chan, *types.Signature:
		return fmt.Sprintf("(and (<= 0 %s) (< %s %s))", term, term, st.alloc)
	case *types.Slice:
		return fmt.Sprintf("(and (<= 0 (s_arr %s)) (< (s_arr %s) %s) (<= 0 (s_off %s)) (<= 0 (s_len %s)) (<= (s_len %s) (s_cap %s)) (<= (+ (s_off %s) (s_cap %s)) MAXLEN) (=> (= (s_arr %s) 0) (= (s_cap %s) 0)))",
			term, term, st.alloc, term, term, term, term, term, term, term, term)
	case *types.Struct:
		if depth <= 0 {
			return "true"
		}
		var fs []string
		for i := 0; i < u.NumFields(); i++ {
			acc := c.sorts.FieldAcc(t, i)
			fs = append(fs, c.typeFact("("+acc+" "+term+")", u.Field(i).Type(), st, depth-1))
		}
		return and(fs...)
	}
	return "true"
}

// operand evaluates an SSA operand.
func (c *Ctx) operand(fr *Frame, v ssa.Value, st *State) Val {
	switch x := v.(type) {
	case *ssa.Const:
		return c.constVal(x)
	case *ssa.Global:
		// pointer to the global's cell
		t := x.Type().(*types.Pointer).Elem()
		ref := c.globalRef(x)
		if _, ok := t.Underlying().(*types.Struct); ok {
			return Val{T: ref, Typ: x.Type()}
		}
		return Val{T: ref, Typ: x.Type()}
	case *ssa.Function:
		return Val{Fn: x, Typ: x.Type()}
	case *ssa.Builtin:
		return Val{Typ: x.Type()}
	}
	for f := fr; f != nil; f = f.parent {
		if val, ok := f.vals[v]; ok {
			return val
		}
	}
	c.unsupportedf("use of undefined SSA value %s (%T) in %s", v.Name(), v, fr.fn.Name())
	return c.havocVal(v.Name(), v.Type())
}

func (c *Ctx) constVal(x *ssa.Const) Val {
	t := x.Type()
	if x.Value == nil {
		return Val{T: c.sorts.Zero(t), Typ: t}
	}
	switch x.Value.Kind() {
	case constant.Bool:
		if constant.BoolVal(x.Value) {
			return Val{T: "true", Typ: t}
		}
		return Val{T: "false", Typ: t}
	case constant.String:
		return Val{T: c.strConst(constant.StringVal(x.Value)), Typ: t}
	case constant.Int:
		if isFloat(t) {
			return Val{T: "(i2f " + smtBig(x.Value.ExactString()) + ")", Typ: t}
		}
		return Val{T: smtBig(x.Value.ExactString()), Typ: t}
	case constant.Float:
		if isIntLike(t) {
			if i, ok := constant.Int64Val(constant.ToInt(x.Value)); ok {
				return Val{T: smtInt(i), Typ: t}
			}
		}
		if constant.Sign(x.Value) == 0 {
			return Val{T: "f64_zero", Typ: t}
		}
		// float literal: i2f when integral, else an opaque distinct constant per literal
		if iv := constant.ToInt(x.Value); iv.Kind() == constant.Int {
			return Val{T: "(i2f " + smtBig(iv.ExactString()) + ")", Typ: t}
		}
		n := "fconst_" + sanitize(x.Value.ExactString())
		c.globalsF64(n)
		return Val{T: n, Typ: t}
	}
	c.unsupportedf("constant kind %v", x.Value.Kind())
	return c.havocVal("const", t)
}

func (c *Ctx) globalsF64(n string) {
	for _, l := range c.lines {
		if l == "(declare-const "+n+" F64)" {
			return
		}
	}
	// declare at the front so every obligation sees it
	c.lines = append([]string{"(declare-const " + n + " F64)"}, c.lines...)
	for _, o := range c.obls {
		o.Upto++
	}
}

func smtBig(s string) string {
	if strings.HasPrefix(s, "-") {
		return "(- " + s[1:] + ")"
	}
	return s
}

// execBlock runs the non-phi instructions of b.
func (c *Ctx) execBlock(fr *Frame, b *ssa.BasicBlock, st *State, reach string, rets *[]retPoint) *blockOut {
	out := &blockOut{st: st, reach: reach}
	for _, ins := range b.Instrs {
		c.curFr = fr
		switch x := ins.(type) {
		case *ssa.Phi, *ssa.DebugRef:
			continue
		case *ssa.If:
			cond := c.term(c.operand(fr, x.Cond, st))
			out.conds = []string{and(reach, cond), and(reach, not(cond))}
			return out
		case *ssa.Jump:
			out.conds = []string{reach}
			return out
		case *ssa.Return:
			var vs []Val
			for _, r := range x.Results {
				vs = append(vs, c.operand(fr, r, st))
			}
			*rets = append(*rets, retPoint{reach: reach, st: st, vals: vs, pos: x.Pos()})
			out.conds = nil
			return out
		case *ssa.Panic:
			c.oblige("SAFE", "SAFE.panic", x.Pos(), reach, "false", "explicit panic reachable")
			out.conds = nil
			return out
		case *ssa.RunDefers:
			c.runDefers(fr, st, reach)
		default:
			c.execInstr(fr, ins, st, reach)
		}
	}
	return out
}

func (c *Ctx) runDefers(fr *Frame, st *State, reach string) {
	for _, d := range fr.defers() {
		d(st, reach)
	}
}

func (fr *Frame) defers() []func(*State, string) {
	ds := fr.deferred
	out := make([]func(*State, string), 0, len(ds))
	for i := len(ds) - 1; i >= 0; i-- {
		out = append(out, ds[i])
	}
	return out
}
