package main

import (
	"go/token"
	"go/types"
	"strings"
	"sync"

	"golang.org/x/tools/go/ssa"
)

// ModSet: which heap arrays a function may write.
//
//	Arrays: entries of pre-existing objects may change
//	Fresh:  only entries of objects allocated during the call change
type ModSet struct {
	Top           bool
	FreshTop      bool              // unknown set of arrays, but only fresh objects are written
	Arrays        map[string]string // name -> elem sort (as passed to Ctx.arr)
	Fresh         map[string]string
	Locals        map[*ssa.Alloc]bool // stores to locals (incl. via captured free vars), for loop havoc
	FreeVarStores map[*ssa.FreeVar]bool
}

func newModSet() *ModSet {
	return &ModSet{Arrays: map[string]string{}, Fresh: map[string]string{}, Locals: map[*ssa.Alloc]bool{}, FreeVarStores: map[*ssa.FreeVar]bool{}}
}

func (m *ModSet) union(o *ModSet, freshToo bool) bool {
	ch := false
	if o.Top && !m.Top {
		m.Top = true
		ch = true
	}
	for k, v := range o.Arrays {
		if _, ok := m.Arrays[k]; !ok {
			m.Arrays[k] = v
			ch = true
		}
	}
	for k, v := range o.Fresh {
		if _, ok := m.Fresh[k]; !ok {
			m.Fresh[k] = v
			ch = true
		}
	}
	return ch
}

type ModAnalysis struct {
	sp               *Specs
	w                *World
	sorts            *Sorts
	sets             map[*ssa.Function]*ModSet
	mu               sync.Mutex
	final            map[*ssa.Global]bool
	nonFinalField    map[string]string // field array name -> why
	cfgs             map[*ssa.Function]*cfgInfo
	declaredFinal    map[string][]string // field array -> allowed writer functions (from `final` clauses)
	nonFinalWriters  map[string]map[string]bool
	FinalAssumptions []string
	pureCache        map[*ssa.Function]*pureInfo
	pureIfaceCache   map[string]int
}

// IsFinalField: no function outside package initialisation stores to this field of a
// pre-existing object, and every store to it happens in the initialisation prefix of a fresh
// allocation (before the object is used otherwise).
func (ma *ModAnalysis) IsFinalField(arrayName string) bool {
	if !strings.HasPrefix(arrayName, "H_") {
		return false
	}
	_, nf := ma.nonFinalField[arrayName]
	return !nf
}

func NewModAnalysis(w *World, sp *Specs) *ModAnalysis {
	ma := &ModAnalysis{w: w, sp: sp, sorts: NewSorts(w), sets: map[*ssa.Function]*ModSet{}, final: map[*ssa.Global]bool{}}
	ma.run()
	return ma
}

func (ma *ModAnalysis) Of(fn *ssa.Function) *ModSet {
	if s, ok := ma.sets[fn]; ok {
		return s
	}
	return &ModSet{Top: true}
}

// IsFinal: a package-level variable that is only assigned in package initialisers.
func (ma *ModAnalysis) IsFinal(g *ssa.Global) bool { return ma.final[g] }

func (ma *ModAnalysis) run() {
	fns := ma.w.AllFuncs
	// final globals
	mutable := map[*ssa.Global]bool{}
	for _, fn := range fns {
		isInit := fn.Name() == "init" || strings.HasPrefix(fn.Name(), "init#") || strings.HasPrefix(fn.Name(), "init$")
		if fn.Parent() == nil && isInit {
			continue
		}
		for _, b := range fn.Blocks {
			for _, ins := range b.Instrs {
				if s, ok := ins.(*ssa.Store); ok {
					if g, ok := s.Addr.(*ssa.Global); ok {
						mutable[g] = true
					}
				}
				// address of a global escaping into a call: conservatively mutable unless sync primitive
				if call, ok := ins.(ssa.CallInstruction); ok {
					for _, a := range call.Common().Args {
						if g, ok := a.(*ssa.Global); ok {
							mutable[g] = true
						}
					}
				}
			}
		}
	}
	for _, sp := range ma.w.SSAPkgs {
		for _, m := range sp.Members {
			if g, ok := m.(*ssa.Global); ok && !mutable[g] {
				ma.final[g] = true
			}
		}
	}
	for _, fn := range fns {
		ma.sets[fn] = newModSet()
	}
	ma.nonFinalField = map[string]string{}
	ma.computeFinalFields(fns)
	if ma.sp != nil {
		for _, fd := range ma.sp.Finals {
			n := "H_" + sanitize(fd.Field)
			allowed := map[string]bool{}
			for _, w := range fd.Writers {
				allowed[w] = true
			}
			ok := true
			for w := range ma.nonFinalWriters[n] {
				if !allowed[w] {
					ok = false
					ma.sp.errf("final %s: function %s writes the field but is not a declared writer", fd.Field, w)
				}
			}
			if ok {
				delete(ma.nonFinalField, n)
				ma.FinalAssumptions = append(ma.FinalAssumptions, "field "+fd.Field+" treated as final: written only by "+strings.Join(fd.Writers, ", ")+" ("+fd.Why+")")
			}
		}
	}
	// direct effects + propagate to fixpoint
	for iter := 0; iter < 50; iter++ {
		changed := false
		for _, fn := range fns {
			if ma.step(fn) {
				changed = true
			}
		}
		if !changed {
			break
		}
	}
}

func (ma *ModAnalysis) step(fn *ssa.Function) bool {
	ms := ma.sets[fn]
	ch := false
	for _, b := range fn.Blocks {
		for _, ins := range b.Instrs {
			if ma.instrMods(fn, ins, ms) {
				ch = true
			}
		}
	}
	return ch
}

// InstrMods adds the effects of one instruction to ms; reports change.
func (ma *ModAnalysis) instrMods(fn *ssa.Function, ins ssa.Instruction, ms *ModSet) bool {
	ch := false
	add := func(name, sort string, fresh bool) {
		if ma.IsFinalField(name) {
			return
		}
		if fresh {
			if _, ok := ms.Fresh[name]; !ok {
				ms.Fresh[name] = sort
				ch = true
			}
		} else {
			if _, ok := ms.Arrays[name]; !ok {
				ms.Arrays[name] = sort
				ch = true
			}
		}
	}
	switch x := ins.(type) {
	case *ssa.Store:
		ma.addrMods(x.Addr, add, ms)
	case *ssa.MapUpdate:
		mt := x.Map.Type().Underlying().(*types.Map)
		ma.mapMods(mt, isFreshRoot(x.Map, 0), add)
	case *ssa.Go, *ssa.Send, *ssa.Select:
		if !ms.Top {
			ms.Top = true
			ch = true
		}
	case *ssa.Defer:
		// deferred closures: treat like a call
		if ma.callMods(fn, &x.Call, ms, add) {
			ch = true
		}
	case *ssa.Call:
		if ma.callMods(fn, &x.Call, ms, add) {
			ch = true
		}
	}
	return ch
}

func (ma *ModAnalysis) mapMods(mt *types.Map, fresh bool, add func(string, string, bool)) {
	ks, es := ma.sorts.Of(mt.Key()), ma.sorts.Of(mt.Elem())
	add(ma.sorts.MapHas(ks, es), "(Array Int (Array "+ks+" Bool))", fresh)
	add(ma.sorts.MapVal(ks, es), "(Array Int (Array "+ks+" "+es+"))", fresh)
	add(MapLen, "Int", fresh)
}

func (ma *ModAnalysis) addrMods(addr ssa.Value, add func(string, string, bool), ms *ModSet) {
	// walk down to the root
	v := addr
	var firstField *ssa.FieldAddr // the FieldAddr applied directly to the root pointer
	for {
		switch x := v.(type) {
		case *ssa.FieldAddr:
			firstField = x
			v = x.X
			continue
		case *ssa.IndexAddr:
			switch bt := x.X.Type().Underlying().(type) {
			case *types.Slice:
				es := ma.sorts.Of(bt.Elem())
				add(ma.sorts.ElemArray(es), es, isFreshRoot(x.X, 0))
				return
			case *types.Pointer:
				// pointer to array: the array lives in E_<elem>
				if at, ok := bt.Elem().Underlying().(*types.Array); ok {
					if a, isAlloc := x.X.(*ssa.Alloc); isAlloc && !a.Heap {
						ms.Locals[a] = true
						return
					}
					es := ma.sorts.Of(at.Elem())
					add(ma.sorts.ElemArray(es), es, isFreshRoot(x.X, 0))
					return
				}
			}
			firstField = nil
			v = x.X
			continue
		}
		break
	}
	root := v
	fresh := isFreshRoot(root, 0)
	if a, ok := root.(*ssa.Alloc); ok {
		ms.Locals[a] = true
	}
	if fv, ok := root.(*ssa.FreeVar); ok {
		ms.FreeVarStores[fv] = true
	}
	pt, ok := root.Type().Underlying().(*types.Pointer)
	if !ok {
		return
	}
	elem := pt.Elem()
	if _, isStruct := elem.Underlying().(*types.Struct); isStruct {
		if firstField != nil && firstField.X == root {
			n, s := ma.sorts.FieldArray(elem, firstField.Field)
			add(n, s, fresh)
			return
		}
		// whole-struct store
		u := elem.Underlying().(*types.Struct)
		for i := 0; i < u.NumFields(); i++ {
			n, s := ma.sorts.FieldArray(elem, i)
			add(n, s, fresh)
		}
		return
	}
	if at, isArr := elem.Underlying().(*types.Array); isArr {
		es := ma.sorts.Of(at.Elem())
		add(ma.sorts.ElemArray(es), es, fresh)
		return
	}
	cs := ma.sorts.Of(elem)
	add(ma.sorts.CellArray(cs), cs, fresh)
}

func isFreshRoot(v ssa.Value, depth int) bool {
	if depth > 8 {
		return false
	}
	switch x := v.(type) {
	case *ssa.Alloc, *ssa.MakeSlice, *ssa.MakeMap:
		return true
	case *ssa.Const:
		return x.Value == nil
	case *ssa.Slice:
		return isFreshRoot(x.X, depth+1)
	case *ssa.ChangeType:
		return isFreshRoot(x.X, depth+1)
	case *ssa.Phi:
		for _, e := range x.Edges {
			if e == v {
				continue
			}
			if _, isPhi := e.(*ssa.Phi); isPhi && depth > 3 {
				continue
			}
			if !isFreshRoot(e, depth+1) {
				return false
			}
		}
		return true
	case *ssa.Call:
		if b, ok := x.Call.Value.(*ssa.Builtin); ok && b.Name() == "append" {
			return isFreshRoot(x.Call.Args[0], depth+1)
		}
	}
	return false
}

var externalWrites = map[string][]int{
	"sort.Strings": {0}, "sort.Ints": {0}, "sort.Slice": {0}, "sort.SliceStable": {0}, "sort.Sort": {0},
}

func (ma *ModAnalysis) callMods(fn *ssa.Function, cc *ssa.CallCommon, ms *ModSet, add func(string, string, bool)) bool {
	ch := false
	if cc.IsInvoke() {
		it := cc.Value.Type()
		if !ma.w.isRepoInterface(it) {
			// io.Reader.Read(p) writes p
			if cc.Method.Name() == "Read" && len(cc.Args) == 1 {
				if sl, ok := cc.Args[0].Type().Underlying().(*types.Slice); ok {
					es := ma.sorts.Of(sl.Elem())
					add(ma.sorts.ElemArray(es), es, isFreshRoot(cc.Args[0], 0))
				}
			}
			return false
		}
		iface := it.Underlying().(*types.Interface)
		for _, impl := range ma.w.Implementers(iface) {
			sel := ma.w.Prog.MethodSets.MethodSet(impl).Lookup(cc.Method.Pkg(), cc.Method.Name())
			if sel == nil {
				continue
			}
			if mfn := ma.w.Prog.MethodValue(sel); mfn != nil {
				if cs, ok := ma.sets[mfn]; ok {
					if ms.union(cs, true) {
						ch = true
					}
				} else if mfn.Synthetic != "" {
					// wrapper: look through to the wrapped method by name
					for _, b := range mfn.Blocks {
						for _, ins := range b.Instrs {
							if c2, ok := ins.(*ssa.Call); ok && !c2.Call.IsInvoke() {
								if ma.callMods(mfn, &c2.Call, ms, add) {
									ch = true
								}
							}
						}
					}
				}
			}
		}
		return ch
	}
	switch callee := cc.Value.(type) {
	case *ssa.Builtin:
		switch callee.Name() {
		case "append":
			if sl, ok := cc.Args[0].Type().Underlying().(*types.Slice); ok {
				es := ma.sorts.Of(sl.Elem())
				add(ma.sorts.ElemArray(es), es, isFreshRoot(cc.Args[0], 0))
			}
		case "copy":
			if sl, ok := cc.Args[0].Type().Underlying().(*types.Slice); ok {
				es := ma.sorts.Of(sl.Elem())
				add(ma.sorts.ElemArray(es), es, isFreshRoot(cc.Args[0], 0))
			}
		case "delete":
			ma.mapMods(cc.Args[0].Type().Underlying().(*types.Map), isFreshRoot(cc.Args[0], 0), add)
		}
		return false
	}
	callee := cc.StaticCallee()
	if callee == nil {
		if !ms.Top {
			ms.Top = true
			return true
		}
		return false
	}
	if cs, ok := ma.sets[callee]; ok {
		if ms.union(cs, true) {
			ch = true
		}
		// a closure's stores through free variables hit the caller's locals
		if mc, ok := cc.Value.(*ssa.MakeClosure); ok {
			for i, fv := range callee.FreeVars {
				if cs.FreeVarStores[fv] && i < len(mc.Bindings) {
					if a, ok := mc.Bindings[i].(*ssa.Alloc); ok {
						if !ms.Locals[a] {
							ms.Locals[a] = true
							ch = true
						}
					}
					if fv2, ok := mc.Bindings[i].(*ssa.FreeVar); ok {
						if !ms.FreeVarStores[fv2] {
							ms.FreeVarStores[fv2] = true
							ch = true
						}
					}
				}
			}
		}
		return ch
	}
	// external
	full := callee.String()
	if idxs, ok := externalWrites[full]; ok {
		for _, i := range idxs {
			if i < len(cc.Args) {
				if sl, ok := cc.Args[i].Type().Underlying().(*types.Slice); ok {
					es := ma.sorts.Of(sl.Elem())
					add(ma.sorts.ElemArray(es), es, isFreshRoot(cc.Args[i], 0))
				}
			}
		}
	}
	// external function taking a func value from the repo may call it back (sort.Slice less): callbacks that
	// are closures of this function are pure comparisons in this code base; not modelled.
	return ch
}

// LoopMods: effects of the instructions of a set of blocks.
func (ma *ModAnalysis) LoopMods(fn *ssa.Function, blocks map[*ssa.BasicBlock]bool) *ModSet {
	ms := newModSet()
	for b := range blocks {
		for _, ins := range b.Instrs {
			ma.instrMods(fn, ins, ms)
		}
	}
	return ms
}

var _ = token.NoPos

func isInitFunc(fn *ssa.Function) bool {
	for f := fn; f != nil; f = f.Parent() {
		if f.Parent() == nil {
			return f.Name() == "init" || strings.HasPrefix(f.Name(), "init#")
		}
	}
	return false
}

func (ma *ModAnalysis) computeFinalFields(fns []*ssa.Function) {
	for _, fn := range fns {
		if isInitFunc(fn) {
			continue
		}
		for _, b := range fn.Blocks {
			for idx, ins := range b.Instrs {
				st, ok := ins.(*ssa.Store)
				if !ok {
					continue
				}
				ma.classifyStore(fn, b, idx, st)
			}
		}
	}
}

func (ma *ModAnalysis) classifyStore(fn *ssa.Function, b *ssa.BasicBlock, idx int, st *ssa.Store) {
	// find root and first field
	v := st.Addr
	var firstField *ssa.FieldAddr
	for {
		switch x := v.(type) {
		case *ssa.FieldAddr:
			firstField = x
			v = x.X
			continue
		case *ssa.IndexAddr:
			if _, isSlice := x.X.Type().Underlying().(*types.Slice); isSlice {
				return
			}
			firstField = nil
			v = x.X
			continue
		}
		break
	}
	pt, ok := v.Type().Underlying().(*types.Pointer)
	if !ok {
		return
	}
	stt, ok := pt.Elem().Underlying().(*types.Struct)
	if !ok {
		return
	}
	mark := func(i int, why string) {
		n, _ := ma.sorts.FieldArray(pt.Elem(), i)
		if _, ok := ma.nonFinalField[n]; !ok {
			ma.nonFinalField[n] = why + " in " + ma.w.keyOfAny(fn)
		}
		if ma.nonFinalWriters == nil {
			ma.nonFinalWriters = map[string]map[string]bool{}
		}
		if ma.nonFinalWriters[n] == nil {
			ma.nonFinalWriters[n] = map[string]bool{}
		}
		ma.nonFinalWriters[n][ma.w.keyOfAny(fn)] = true
	}
	var fields []int
	if firstField != nil && firstField.X == v {
		fields = []int{firstField.Field}
	} else {
		for i := 0; i < stt.NumFields(); i++ {
			fields = append(fields, i)
		}
	}
	alloc, isAlloc := v.(*ssa.Alloc)
	if !isAlloc {
		for _, f := range fields {
			mark(f, "store to a field of a non-fresh object")
		}
		return
	}
	// initialisation discipline: no escape of the fresh object and no read of the same field may
	// happen before this store on any path within the same allocation instance (back edges lead to a
	// different instance of the allocation, so they are not followed)
	ci := ma.cfgOf(fn)
	for _, u := range escapingUses(alloc) {
		if u.field >= 0 {
			same := false
			for _, f := range fields {
				if f == u.field {
					same = true
				}
			}
			if !same {
				continue
			}
		}
		if instrReaches(ci, u.ins, st) {
			for _, f := range fields {
				mark(f, "store to a fresh object after it was used")
			}
			return
		}
	}
	_ = idx
}

func (ma *ModAnalysis) cfgOf(fn *ssa.Function) *cfgInfo {
	if ma.cfgs == nil {
		ma.cfgs = map[*ssa.Function]*cfgInfo{}
	}
	if ci, ok := ma.cfgs[fn]; ok {
		return ci
	}
	ci := analyzeCFG(fn)
	ma.cfgs[fn] = ci
	return ci
}

type escUse struct {
	ins   ssa.Instruction
	field int // -1: the whole object escapes / is used
}

// escapingUses: instructions that use the allocation other than to compute the address of a store.
func escapingUses(alloc *ssa.Alloc) []escUse {
	var out []escUse
	var walk func(v ssa.Value, field int)
	walk = func(v ssa.Value, field int) {
		refs := v.Referrers()
		if refs == nil {
			return
		}
		for _, r := range *refs {
			switch x := r.(type) {
			case *ssa.DebugRef:
			case *ssa.FieldAddr:
				f := field
				if v == ssa.Value(alloc) {
					f = x.Field
				}
				walk(x, f)
			case *ssa.IndexAddr:
				walk(x, field)
			case *ssa.Store:
				if x.Val == v {
					out = append(out, escUse{r, -1})
				}
			case *ssa.UnOp:
				if x.Op == token.MUL && v != ssa.Value(alloc) {
					out = append(out, escUse{r, field})
				} else {
					out = append(out, escUse{r, -1})
				}
			default:
				out = append(out, escUse{r, -1})
			}
		}
	}
	walk(alloc, -1)
	return out
}

// instrReaches: control can flow from instruction a to instruction b without taking a back edge.
func instrReaches(ci *cfgInfo, a, b ssa.Instruction) bool {
	ba, bb := a.Block(), b.Block()
	if ba == bb {
		ia, ib := -1, -1
		for i, ins := range ba.Instrs {
			if ins == a {
				ia = i
			}
			if ins == b {
				ib = i
			}
		}
		return ia < ib
	}
	seen := map[*ssa.BasicBlock]bool{}
	var stack []*ssa.BasicBlock
	push := func(from *ssa.BasicBlock) {
		for _, s := range from.Succs {
			if !ci.back[[2]int{from.Index, s.Index}] {
				stack = append(stack, s)
			}
		}
	}
	push(ba)
	for len(stack) > 0 {
		n := stack[len(stack)-1]
		stack = stack[:len(stack)-1]
		if seen[n] {
			continue
		}
		seen[n] = true
		if n == bb {
			return true
		}
		push(n)
	}
	return false
}
