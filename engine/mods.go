package main

import (
	"fmt"
	"go/token"
	"go/types"
	"strings"
	"sync"

	"golang.org/x/tools/go/ssa"
)

// ModSet: which heap arrays a function may write.
//
//	Arrays: entries of pre-existing objects may change
//	Fresh:  only entries of objects allocated during the call change
type ModSet struct {
	Top           bool
	Locks         bool // may acquire/release a sync lock (transitively)
	TopWhy        string
	StoreRef      string            // (call-site copy only) the one pre-existing variable store an EC callee may write: its env argument's Store; "" = none
	EC            bool              // calls a value of an EC-framed function type (effects bounded by the EC frame)
	FreshTop      bool              // unknown set of arrays, but only fresh objects are written
	Arrays        map[string]string // name -> elem sort (as passed to Ctx.arr)
	Fresh         map[string]string
	Locals        map[*ssa.Alloc]bool // stores to locals (incl. via captured free vars), for loop havoc
	FreeVarStores map[*ssa.FreeVar]bool
	ByParam       map[int]map[string]string // writes into memory rooted directly at parameter i
}

func newModSet() *ModSet {
	return &ModSet{Arrays: map[string]string{}, Fresh: map[string]string{}, ByParam: map[int]map[string]string{}, Locals: map[*ssa.Alloc]bool{}, FreeVarStores: map[*ssa.FreeVar]bool{}}
}

func (m *ModSet) union(o *ModSet, freshToo bool) bool {
	ch := false
	if o.Locks && !m.Locks {
		m.Locks = true
		ch = true
	}
	if o.EC && !m.EC {
		m.EC = true
		ch = true
	}
	if o.FreshTop && !m.FreshTop {
		m.FreshTop = true
		ch = true
	}
	if o.Top && !m.Top {
		m.Top = true
		m.TopWhy = o.TopWhy
		ch = true
	}
	for k, v := range o.Arrays {
		if _, ok := m.Arrays[k]; !ok {
			m.Arrays[k] = v
			ch = true
		}
	}
	for k, v := range o.Fresh {
		if _, ok := m.Fresh[k]; !ok {
			m.Fresh[k] = v
			ch = true
		}
	}
	return ch
}

type ModAnalysis struct {
	sp               *Specs
	w                *World
	sorts            *Sorts
	sets             map[*ssa.Function]*ModSet
	mu               sync.Mutex
	final            map[*ssa.Global]bool
	nonFinalField    map[string]string // field array name -> why
	cfgs             map[*ssa.Function]*cfgInfo
	declaredFinal    map[string][]string // field array -> allowed writer functions (from `final` clauses)
	nonFinalWriters  map[string]map[string]bool
	retFresh         map[*ssa.Function][]bool
	ECArrays         map[string]string      // array name -> elem sort
	Verified         map[*ssa.Function]bool // all FRAME obligations of the function were discharged in this run
	allFns           []*ssa.Function
	storeArrays      map[string]bool
	ecFuncTypes      map[string]bool
	pureFuncTypes    map[string]bool
	FinalAssumptions []string
	MutatedGlobals   map[*ssa.Global]map[string]bool // package-level containers whose contents change after init
	pureCache        map[*ssa.Function]*pureInfo
	pureIfaceCache   map[string]int
}

// IsFinalField: no function outside package initialisation stores to this field of a
// pre-existing object, and every store to it happens in the initialisation prefix of a fresh
// allocation (before the object is used otherwise).
func (ma *ModAnalysis) IsFinalField(arrayName string) bool {
	if !strings.HasPrefix(arrayName, "H_") {
		return false
	}
	_, nf := ma.nonFinalField[arrayName]
	return !nf
}

func NewModAnalysis(w *World, sp *Specs) *ModAnalysis {
	ma := &ModAnalysis{w: w, sp: sp, sorts: NewSorts(w), sets: map[*ssa.Function]*ModSet{}, final: map[*ssa.Global]bool{}}
	ma.run()
	return ma
}

func (ma *ModAnalysis) Of(fn *ssa.Function) *ModSet {
	if s, ok := ma.sets[fn]; ok {
		return s
	}
	return &ModSet{Top: true}
}

// IsFinal: a package-level variable that is only assigned in package initialisers.
func (ma *ModAnalysis) IsFinal(g *ssa.Global) bool { return ma.final[g] }

func (ma *ModAnalysis) run() {
	fns := append([]*ssa.Function{}, ma.w.AllFuncs...)
	// synthetic method wrappers (promoted methods of embedded fields) take part in the effect analysis
	have := map[*ssa.Function]bool{}
	for _, f := range fns {
		have[f] = true
	}
	for _, n := range ma.w.Named {
		for _, t := range []types.Type{n, types.NewPointer(n)} {
			mset := ma.w.Prog.MethodSets.MethodSet(t)
			for i := 0; i < mset.Len(); i++ {
				if mfn := ma.w.Prog.MethodValue(mset.At(i)); mfn != nil && !have[mfn] && len(mfn.Blocks) > 0 {
					have[mfn] = true
					fns = append(fns, mfn)
				}
			}
		}
	}
	// final globals
	mutable := map[*ssa.Global]bool{}
	for _, fn := range fns {
		isInit := fn.Name() == "init" || strings.HasPrefix(fn.Name(), "init#") || strings.HasPrefix(fn.Name(), "init$")
		if fn.Parent() == nil && isInit {
			continue
		}
		for _, b := range fn.Blocks {
			for _, ins := range b.Instrs {
				if s, ok := ins.(*ssa.Store); ok {
					if g, ok := s.Addr.(*ssa.Global); ok {
						mutable[g] = true
					}
					// element/field of a package-level array or struct variable
					root := s.Addr
					for {
						if fa, ok := root.(*ssa.FieldAddr); ok {
							root = fa.X
							continue
						}
						if ia, ok := root.(*ssa.IndexAddr); ok {
							root = ia.X
							continue
						}
						break
					}
					if g, ok := root.(*ssa.Global); ok && ma.w.isRepoPkg(g.Pkg.Pkg.Path()) {
						mutable[g] = true
						ma.noteMutatedGlobal(g, fn)
					}
				}
				// address of a global escaping into a call: conservatively mutable unless sync primitive
				if call, ok := ins.(ssa.CallInstruction); ok {
					for _, a := range call.Common().Args {
						if g, ok := a.(*ssa.Global); ok {
							mutable[g] = true
						}
					}
				}
			}
		}
	}
	for _, sp := range ma.w.SSAPkgs {
		for _, m := range sp.Members {
			if g, ok := m.(*ssa.Global); ok && !mutable[g] {
				ma.final[g] = true
			}
		}
	}
	for _, fn := range fns {
		ma.sets[fn] = newModSet()
	}
	ma.nonFinalField = map[string]string{}
	ma.computeFinalFields(fns)
	ma.resolveFrames()
	if ma.sp != nil {
		for _, fd := range ma.sp.Finals {
			n := "H_" + sanitize(fd.Field)
			allowed := map[string]bool{}
			for _, w := range fd.Writers {
				allowed[w] = true
			}
			ok := true
			for w := range ma.nonFinalWriters[n] {
				if !allowed[w] {
					ok = false
					ma.sp.errf("final %s: function %s writes the field but is not a declared writer", fd.Field, w)
				}
			}
			if ok {
				delete(ma.nonFinalField, n)
				ma.FinalAssumptions = append(ma.FinalAssumptions, "field "+fd.Field+" treated as final: written only by "+strings.Join(fd.Writers, ", ")+" ("+fd.Why+")")
			}
		}
	}
	// optimistic "returns a fresh object" summaries, refined downwards
	ma.retFresh = map[*ssa.Function][]bool{}
	for _, fn := range fns {
		res := fn.Signature.Results()
		rf := make([]bool, res.Len())
		for i := range rf {
			t := res.At(i).Type()
			_, isSl := t.Underlying().(*types.Slice)
			rf[i] = (isRefLike(t) || isSl) && len(fn.Blocks) > 0
		}
		ma.retFresh[fn] = rf
	}
	for iter := 0; iter < 50; iter++ {
		changed := false
		for _, fn := range fns {
			rf := ma.retFresh[fn]
			for _, b := range fn.Blocks {
				ret, ok := b.Instrs[len(b.Instrs)-1].(*ssa.Return)
				if !ok {
					continue
				}
				for i, r := range ret.Results {
					if i < len(rf) && rf[i] && ma.origin(r, 0) != orFresh {
						rf[i] = false
						changed = true
					}
				}
			}
		}
		if !changed {
			break
		}
	}
	ma.allFns = fns
	ma.Verified = map[*ssa.Function]bool{}
	ma.propagate()
}

// propagate (re)computes the effect sets to a fixpoint.
func (ma *ModAnalysis) propagate() {
	for _, fn := range ma.allFns {
		ma.sets[fn] = newModSet()
	}
	for iter := 0; iter < 50; iter++ {
		changed := false
		for _, fn := range ma.allFns {
			if ma.step(fn) {
				changed = true
			}
		}
		if !changed {
			break
		}
	}
}

// MarkVerified records functions whose frame was proved and recomputes the effect sets.
func (ma *ModAnalysis) MarkVerified(fns []*ssa.Function) {
	for _, f := range fns {
		ma.Verified[f] = true
	}
	ma.propagate()
}

func (ma *ModAnalysis) step(fn *ssa.Function) bool {
	ms := ma.sets[fn]
	ch := false
	for _, b := range fn.Blocks {
		for _, ins := range b.Instrs {
			if ma.instrMods(fn, ins, ms) {
				ch = true
			}
		}
	}
	return ch
}

// InstrMods adds the effects of one instruction to ms; reports change.
func (ma *ModAnalysis) instrMods(fn *ssa.Function, ins ssa.Instruction, ms *ModSet) bool {
	ch := false
	add := func(name, sort string, org int) {
		if ma.IsFinalField(name) {
			return
		}
		switch {
		case org == orFresh:
			if _, ok := ms.Fresh[name]; !ok {
				ms.Fresh[name] = sort
				ch = true
			}
		case org >= 0:
			if ms.ByParam[org] == nil {
				ms.ByParam[org] = map[string]string{}
			}
			if _, ok := ms.ByParam[org][name]; !ok {
				ms.ByParam[org][name] = sort
				ch = true
			}
		default:
			if _, ok := ms.Arrays[name]; !ok {
				ms.Arrays[name] = sort
				ch = true
			}
		}
	}
	switch x := ins.(type) {
	case *ssa.Store:
		ma.addrMods(x.Addr, add, ms)
	case *ssa.MapUpdate:
		if g := guardedGlobalOf(x.Map); g != nil && !isInitFunc(fn) {
			ma.noteMutatedGlobal(g, fn)
		}
		mt := x.Map.Type().Underlying().(*types.Map)
		ma.mapMods(mt, ma.origin(x.Map, 0), add)
	case *ssa.Go, *ssa.Send, *ssa.Select:
		if !ms.Top {
			ms.Top = true
			ms.TopWhy = fmt.Sprintf("concurrency instruction %T in %s", ins, ma.w.keyOfAny(fn))
			ch = true
		}
	case *ssa.Defer:
		// deferred closures: treat like a call
		if ma.callMods(fn, &x.Call, ms, add) {
			ch = true
		}
	case *ssa.Call:
		if ma.callMods(fn, &x.Call, ms, add) {
			ch = true
		}
	}
	return ch
}

func (ma *ModAnalysis) mapMods(mt *types.Map, fresh int, add func(string, string, int)) {
	ks, es := ma.sorts.Of(mt.Key()), ma.sorts.Of(mt.Elem())
	add(ma.sorts.MapHasT(mt), "(Array Int (Array "+ks+" Bool))", fresh)
	add(ma.sorts.MapValT(mt), "(Array Int (Array "+ks+" "+es+"))", fresh)
	add(ma.sorts.MapLenT(mt), "Int", fresh)
}

func (ma *ModAnalysis) addrMods(addr ssa.Value, add func(string, string, int), ms *ModSet) {
	// walk down to the root
	v := addr
	var firstField *ssa.FieldAddr // the FieldAddr applied directly to the root pointer
	for {
		switch x := v.(type) {
		case *ssa.FieldAddr:
			firstField = x
			v = x.X
			continue
		case *ssa.IndexAddr:
			switch bt := x.X.Type().Underlying().(type) {
			case *types.Slice:
				es := ma.sorts.Of(bt.Elem())
				add(ma.sorts.ElemArrayT(bt.Elem()), es, ma.origin(x.X, 0))
				return
			case *types.Pointer:
				// pointer to array: the array lives in E_<elem>
				if at, ok := bt.Elem().Underlying().(*types.Array); ok {
					if a, isAlloc := x.X.(*ssa.Alloc); isAlloc && !a.Heap {
						ms.Locals[a] = true
						return
					}
					es := ma.sorts.Of(at.Elem())
					add(ma.sorts.ElemArrayT(at.Elem()), es, ma.origin(x.X, 0))
					return
				}
			}
			firstField = nil
			v = x.X
			continue
		}
		break
	}
	root := v
	fresh := ma.origin(root, 0)
	if a, ok := root.(*ssa.Alloc); ok {
		ms.Locals[a] = true
	}
	if fv, ok := root.(*ssa.FreeVar); ok {
		ms.FreeVarStores[fv] = true
	}
	pt, ok := root.Type().Underlying().(*types.Pointer)
	if !ok {
		return
	}
	elem := pt.Elem()
	if _, isStruct := elem.Underlying().(*types.Struct); isStruct {
		if firstField != nil && firstField.X == root {
			n, s := ma.sorts.FieldArray(elem, firstField.Field)
			add(n, s, fresh)
			return
		}
		// whole-struct store
		u := elem.Underlying().(*types.Struct)
		for i := 0; i < u.NumFields(); i++ {
			n, s := ma.sorts.FieldArray(elem, i)
			add(n, s, fresh)
		}
		return
	}
	if at, isArr := elem.Underlying().(*types.Array); isArr {
		es := ma.sorts.Of(at.Elem())
		add(ma.sorts.ElemArrayT(at.Elem()), es, fresh)
		return
	}
	cs := ma.sorts.Of(elem)
	add(ma.sorts.CellArrayT(elem), cs, fresh)
}

// origin of a pointer/slice/map value: orFresh (allocated in this activation), orParam+i (the i-th
// parameter itself or a reslice/append of it), orOther.
const (
	orFresh = -1
	orOther = -2
)

func (ma *ModAnalysis) origin(v ssa.Value, depth int) int {
	return ma.originSeen(v, depth, map[ssa.Value]bool{})
}

func (ma *ModAnalysis) originSeen(v ssa.Value, depth int, seen map[ssa.Value]bool) int {
	if depth > 24 {
		return orOther
	}
	switch x := v.(type) {
	case *ssa.Alloc, *ssa.MakeSlice, *ssa.MakeMap:
		return orFresh
	case *ssa.Const:
		if x.Value == nil {
			return orFresh
		}
		return orOther
	case *ssa.Parameter:
		for i, p := range x.Parent().Params {
			if p == x {
				return i
			}
		}
		return orOther
	case *ssa.Slice:
		return ma.originSeen(x.X, depth+1, seen)
	case *ssa.ChangeType:
		return ma.originSeen(x.X, depth+1, seen)
	case *ssa.MakeInterface:
		if isRefLike(x.X.Type()) {
			return ma.originSeen(x.X, depth+1, seen)
		}
		return orFresh
	case *ssa.ChangeInterface:
		return ma.originSeen(x.X, depth+1, seen)
	case *ssa.Phi:
		if seen[x] {
			return orFresh // cycle through a loop phi: neutral
		}
		seen[x] = true
		res := orFresh
		for _, e := range x.Edges {
			if e == v {
				continue
			}
			o := ma.originSeen(e, depth+1, seen)
			switch {
			case o == orOther:
				return orOther
			case o == orFresh:
			case res == orFresh:
				res = o
			case res != o:
				return orOther
			}
		}
		return res
	case *ssa.Extract:
		if call, ok := x.Tuple.(*ssa.Call); ok {
			return ma.callResultOrigin(call, x.Index)
		}
	case *ssa.UnOp:
		// load of a local variable cell: join of everything stored into it
		if a, ok := x.X.(*ssa.Alloc); ok && x.Op == token.MUL {
			if seen[a] {
				return orFresh
			}
			seen[a] = true
			refs := a.Referrers()
			if refs == nil {
				return orOther
			}
			res := orFresh
			for _, r := range *refs {
				switch y := r.(type) {
				case *ssa.DebugRef, *ssa.UnOp:
				case *ssa.Store:
					if y.Val == ssa.Value(a) {
						return orOther
					}
					o := ma.originSeen(y.Val, depth+1, seen)
					switch {
					case o == orOther:
						return orOther
					case o == orFresh:
					case res == orFresh:
						res = o
					case res != o:
						return orOther
					}
				case *ssa.MakeClosure:
					fn := y.Fn.(*ssa.Function)
					for i, b := range y.Bindings {
						if b == ssa.Value(a) && i < len(fn.FreeVars) {
							if cs, ok := ma.sets[fn]; ok && cs.FreeVarStores[fn.FreeVars[i]] {
								return orOther
							}
						}
					}
				default:
					return orOther
				}
			}
			return res
		}
	case *ssa.Call:
		if b, ok := x.Call.Value.(*ssa.Builtin); ok && b.Name() == "append" {
			return ma.originSeen(x.Call.Args[0], depth+1, seen)
		}
		return ma.callResultOrigin(x, 0)
	}
	return orOther
}

func (ma *ModAnalysis) callResultOrigin(call *ssa.Call, idx int) int {
	callee := call.Call.StaticCallee()
	if callee == nil || call.Call.IsInvoke() {
		return orOther
	}
	if rf, ok := ma.retFresh[callee]; ok && idx < len(rf) && rf[idx] {
		return orFresh
	}
	return orOther
}

func isFreshRoot(v ssa.Value, depth int) bool {
	if depth > 8 {
		return false
	}
	switch x := v.(type) {
	case *ssa.Alloc, *ssa.MakeSlice, *ssa.MakeMap:
		return true
	case *ssa.Const:
		return x.Value == nil
	case *ssa.Slice:
		return isFreshRoot(x.X, depth+1)
	case *ssa.ChangeType:
		return isFreshRoot(x.X, depth+1)
	case *ssa.Phi:
		for _, e := range x.Edges {
			if e == v {
				continue
			}
			if _, isPhi := e.(*ssa.Phi); isPhi && depth > 3 {
				continue
			}
			if !isFreshRoot(e, depth+1) {
				return false
			}
		}
		return true
	case *ssa.Call:
		if b, ok := x.Call.Value.(*ssa.Builtin); ok && b.Name() == "append" {
			return isFreshRoot(x.Call.Args[0], depth+1)
		}
	}
	return false
}

var externalWrites = map[string][]int{
	"sort.Strings": {0}, "sort.Ints": {0}, "sort.Slice": {0}, "sort.SliceStable": {0}, "sort.Sort": {0},
}

func (ma *ModAnalysis) callMods(fn *ssa.Function, cc *ssa.CallCommon, ms *ModSet, add func(string, string, int)) bool {
	ch := false
	if cc.IsInvoke() {
		it := cc.Value.Type()
		if !ma.w.isRepoInterface(it) {
			// io.Reader.Read(p) writes p
			if cc.Method.Name() == "Read" && len(cc.Args) == 1 {
				if sl, ok := cc.Args[0].Type().Underlying().(*types.Slice); ok {
					es := ma.sorts.Of(sl.Elem())
					add(ma.sorts.ElemArrayT(sl.Elem()), es, ma.origin(cc.Args[0], 0))
				}
			}
			return false
		}
		iface := it.Underlying().(*types.Interface)
		for _, impl := range ma.w.Implementers(iface) {
			sel := ma.w.Prog.MethodSets.MethodSet(impl).Lookup(cc.Method.Pkg(), cc.Method.Name())
			if sel == nil {
				continue
			}
			if mfn := ma.w.Prog.MethodValue(sel); mfn != nil {
				if cs, ok := ma.sets[mfn]; ok {
					if ms.union(cs, true) {
						ch = true
					}
					for pi, arrs := range cs.ByParam {
						org := orOther
						if pi == 0 {
							org = ma.origin(cc.Value, 0)
						} else if pi-1 < len(cc.Args) {
							org = ma.origin(cc.Args[pi-1], 0)
						}
						for n, srt := range arrs {
							add(n, srt, org)
						}
					}
				} else if mfn.Synthetic != "" {
					// wrapper: look through to the wrapped method by name
					for _, b := range mfn.Blocks {
						for _, ins := range b.Instrs {
							if c2, ok := ins.(*ssa.Call); ok && !c2.Call.IsInvoke() {
								if ma.callMods(mfn, &c2.Call, ms, add) {
									ch = true
								}
							}
						}
					}
				}
			}
		}
		return ch
	}
	switch callee := cc.Value.(type) {
	case *ssa.Builtin:
		switch callee.Name() {
		case "append":
			if sl, ok := cc.Args[0].Type().Underlying().(*types.Slice); ok {
				es := ma.sorts.Of(sl.Elem())
				add(ma.sorts.ElemArrayT(sl.Elem()), es, ma.origin(cc.Args[0], 0))
			}
		case "copy":
			if sl, ok := cc.Args[0].Type().Underlying().(*types.Slice); ok {
				es := ma.sorts.Of(sl.Elem())
				add(ma.sorts.ElemArrayT(sl.Elem()), es, ma.origin(cc.Args[0], 0))
			}
		case "delete":
			ma.mapMods(cc.Args[0].Type().Underlying().(*types.Map), ma.origin(cc.Args[0], 0), add)
		}
		return false
	}
	callee := cc.StaticCallee()
	if callee == nil {
		if ma.isPureFuncType(cc.Value.Type()) {
			if !ms.FreshTop {
				ms.FreshTop = true
				return true
			}
			return false
		}
		if ma.isECFuncType(cc.Value.Type()) {
			if !ms.EC {
				ms.EC = true
				return true
			}
			return false
		}
		if !ms.Top {
			ms.Top = true
			ms.TopWhy = fmt.Sprintf("call through function value of type %s in %s", cc.Value.Type(), ma.w.keyOfAny(fn))
			return true
		}
		return false
	}
	if strings.HasPrefix(callee.String(), "(*sync.RWMutex).") || strings.HasPrefix(callee.String(), "(*sync.Mutex).") {
		if !ms.Locks {
			ms.Locks = true
			ch = true
		}
	}
	if ma.sp != nil {
		if con := ma.sp.Contracts[ma.w.keyOfAny(callee)]; con != nil && con.HasAssigns && len(con.Assigns) == 0 {
			if cs, ok := ma.sets[callee]; ok {
				for n, srt := range cs.Arrays {
					add(n, srt, orFresh)
				}
				for n, srt := range cs.Fresh {
					add(n, srt, orFresh)
				}
				for _, arrs := range cs.ByParam {
					for n, srt := range arrs {
						add(n, srt, orFresh)
					}
				}
			}
			return ch
		}
	}
	if ma.defaultFrameOf(callee) == "EC" {
		if !ms.EC {
			ms.EC = true
			ch = true
		}
		if !ms.Locks {
			ms.Locks = true
			ch = true
		}
		return ch
	}
	if cs, ok := ma.sets[callee]; ok && ma.Verified[callee] {
		// the callee's FRAME obligations were all discharged: whatever it writes outside the EC frame is
		// fresh memory, whatever the syntactic inference thought
		for n, srt := range cs.Arrays {
			if _, isEC := ma.ECArrays[n]; isEC {
				add(n, srt, orOther)
			} else {
				add(n, srt, orFresh)
			}
		}
		for n, srt := range cs.Fresh {
			add(n, srt, orFresh)
		}
		for _, arrs := range cs.ByParam {
			for n, srt := range arrs {
				if _, isEC := ma.ECArrays[n]; isEC {
					add(n, srt, orOther)
				} else {
					add(n, srt, orFresh)
				}
			}
		}
		for _, flag := range []*bool{&ms.EC, &ms.Locks, &ms.FreshTop} {
			_ = flag
		}
		if cs.EC && !ms.EC {
			ms.EC = true
			ch = true
		}
		if cs.Locks && !ms.Locks {
			ms.Locks = true
			ch = true
		}
		if (cs.FreshTop || cs.Top) && !ms.FreshTop {
			ms.FreshTop = true
			ch = true
		}
		return ch
	}
	if cs, ok := ma.sets[callee]; ok {
		if ms.union(cs, true) {
			ch = true
		}
		for pi, arrs := range cs.ByParam {
			org := orOther
			if pi < len(cc.Args) {
				org = ma.origin(cc.Args[pi], 0)
			}
			for n, srt := range arrs {
				add(n, srt, org)
			}
		}
		// a closure's stores through free variables hit the caller's locals
		if mc, ok := cc.Value.(*ssa.MakeClosure); ok {
			for i, fv := range callee.FreeVars {
				if cs.FreeVarStores[fv] && i < len(mc.Bindings) {
					if a, ok := mc.Bindings[i].(*ssa.Alloc); ok {
						if !ms.Locals[a] {
							ms.Locals[a] = true
							ch = true
						}
					}
					if fv2, ok := mc.Bindings[i].(*ssa.FreeVar); ok {
						if !ms.FreeVarStores[fv2] {
							ms.FreeVarStores[fv2] = true
							ch = true
						}
					}
				}
			}
		}
		return ch
	}
	// external
	full := callee.String()
	if idxs, ok := externalWrites[full]; ok {
		for _, i := range idxs {
			if i < len(cc.Args) {
				if sl, ok := cc.Args[i].Type().Underlying().(*types.Slice); ok {
					es := ma.sorts.Of(sl.Elem())
					add(ma.sorts.ElemArrayT(sl.Elem()), es, ma.origin(cc.Args[i], 0))
				}
			}
		}
	}
	// external function taking a func value from the repo may call it back (sort.Slice less): callbacks that
	// are closures of this function are pure comparisons in this code base; not modelled.
	return ch
}

// LoopMods: effects of the instructions of a set of blocks.
func (ma *ModAnalysis) LoopMods(fn *ssa.Function, blocks map[*ssa.BasicBlock]bool) *ModSet {
	ms := newModSet()
	for b := range blocks {
		for _, ins := range b.Instrs {
			ma.instrMods(fn, ins, ms)
		}
	}
	return ms
}

var _ = token.NoPos

func isInitFunc(fn *ssa.Function) bool {
	for f := fn; f != nil; f = f.Parent() {
		if f.Parent() == nil {
			return f.Name() == "init" || strings.HasPrefix(f.Name(), "init#")
		}
	}
	return false
}

func (ma *ModAnalysis) computeFinalFields(fns []*ssa.Function) {
	for _, fn := range fns {
		if isInitFunc(fn) {
			continue
		}
		for _, b := range fn.Blocks {
			for idx, ins := range b.Instrs {
				st, ok := ins.(*ssa.Store)
				if !ok {
					continue
				}
				ma.classifyStore(fn, b, idx, st)
			}
		}
	}
}

func (ma *ModAnalysis) classifyStore(fn *ssa.Function, b *ssa.BasicBlock, idx int, st *ssa.Store) {
	// find root and first field
	v := st.Addr
	var firstField *ssa.FieldAddr
	for {
		switch x := v.(type) {
		case *ssa.FieldAddr:
			firstField = x
			v = x.X
			continue
		case *ssa.IndexAddr:
			if _, isSlice := x.X.Type().Underlying().(*types.Slice); isSlice {
				return
			}
			firstField = nil
			v = x.X
			continue
		}
		break
	}
	pt, ok := v.Type().Underlying().(*types.Pointer)
	if !ok {
		return
	}
	stt, ok := pt.Elem().Underlying().(*types.Struct)
	if !ok {
		return
	}
	mark := func(i int, why string) {
		n, _ := ma.sorts.FieldArray(pt.Elem(), i)
		if _, ok := ma.nonFinalField[n]; !ok {
			ma.nonFinalField[n] = why + " in " + ma.w.keyOfAny(fn)
		}
		if ma.nonFinalWriters == nil {
			ma.nonFinalWriters = map[string]map[string]bool{}
		}
		if ma.nonFinalWriters[n] == nil {
			ma.nonFinalWriters[n] = map[string]bool{}
		}
		ma.nonFinalWriters[n][ma.w.keyOfAny(fn)] = true
	}
	var fields []int
	if firstField != nil && firstField.X == v {
		fields = []int{firstField.Field}
	} else {
		for i := 0; i < stt.NumFields(); i++ {
			fields = append(fields, i)
		}
	}
	alloc, isAlloc := v.(*ssa.Alloc)
	if !isAlloc {
		for _, f := range fields {
			mark(f, "store to a field of a non-fresh object")
		}
		return
	}
	if firstField != nil && firstField.X == v && st.Addr != ssa.Value(firstField) {
		// a store into PART of a struct-valued (or array-valued) field: the function-of-the-reference model of
		// final fields has no partial update, so such a field is an ordinary heap array
		mark(firstField.Field, "partial store into a struct-valued field")
		return
	}
	// initialisation discipline: no escape of the fresh object and no read of the same field may
	// happen before this store on any path within the same allocation instance (back edges lead to a
	// different instance of the allocation, so they are not followed)
	ci := ma.cfgOf(fn)
	for _, u := range escapingUses(alloc) {
		if u.field >= 0 {
			same := false
			for _, f := range fields {
				if f == u.field {
					same = true
				}
			}
			if !same {
				continue
			}
		}
		if instrReaches(ci, alloc, u.ins) && instrReaches(ci, u.ins, st) {
			for _, f := range fields {
				mark(f, "store to a fresh object after it was used")
			}
			return
		}
	}
	_ = idx
}

func (ma *ModAnalysis) cfgOf(fn *ssa.Function) *cfgInfo {
	if ma.cfgs == nil {
		ma.cfgs = map[*ssa.Function]*cfgInfo{}
	}
	if ci, ok := ma.cfgs[fn]; ok {
		return ci
	}
	ci := analyzeCFG(fn)
	ma.cfgs[fn] = ci
	return ci
}

type escUse struct {
	ins   ssa.Instruction
	field int // -1: the whole object escapes / is used
}

// escapingUses: instructions that use the allocation other than to compute the address of a store.
func escapingUses(alloc *ssa.Alloc) []escUse {
	var out []escUse
	var walk func(v ssa.Value, field int)
	walk = func(v ssa.Value, field int) {
		refs := v.Referrers()
		if refs == nil {
			return
		}
		for _, r := range *refs {
			switch x := r.(type) {
			case *ssa.DebugRef:
			case *ssa.FieldAddr:
				f := field
				if v == ssa.Value(alloc) {
					f = x.Field
				}
				walk(x, f)
			case *ssa.IndexAddr:
				walk(x, field)
			case *ssa.Store:
				if x.Val == v {
					out = append(out, escUse{r, -1})
				}
			case *ssa.UnOp:
				if x.Op == token.MUL && v != ssa.Value(alloc) {
					out = append(out, escUse{r, field})
				} else {
					out = append(out, escUse{r, -1})
				}
			default:
				out = append(out, escUse{r, -1})
			}
		}
	}
	walk(alloc, -1)
	return out
}

// instrReaches: control can flow from instruction a to instruction b without taking a back edge.
func instrReaches(ci *cfgInfo, a, b ssa.Instruction) bool {
	ba, bb := a.Block(), b.Block()
	if ba == bb {
		ia, ib := -1, -1
		for i, ins := range ba.Instrs {
			if ins == a {
				ia = i
			}
			if ins == b {
				ib = i
			}
		}
		return ia < ib
	}
	seen := map[*ssa.BasicBlock]bool{}
	var stack []*ssa.BasicBlock
	push := func(from *ssa.BasicBlock) {
		for _, s := range from.Succs {
			if !ci.back[[2]int{from.Index, s.Index}] {
				stack = append(stack, s)
			}
		}
	}
	push(ba)
	for len(stack) > 0 {
		n := stack[len(stack)-1]
		stack = stack[:len(stack)-1]
		if seen[n] {
			continue
		}
		seen[n] = true
		if n == bb {
			return true
		}
		push(n)
	}
	return false
}

// AtCall: the effects of calling callee with the given argument operands: parameter-rooted writes are
// attributed according to where the arguments come from in the caller.
func (ma *ModAnalysis) AtCall(callee *ssa.Function, args []ssa.Value) *ModSet {
	if ma.defaultFrameOf(callee) == "EC" {
		ms := newModSet()
		ms.EC = true
		ms.Locks = true
		return ms
	}
	cs, ok := ma.sets[callee]
	if !ok {
		return &ModSet{Top: true}
	}
	if ma.Verified[callee] {
		ms := newModSet()
		ms.EC, ms.Locks, ms.FreshTop = cs.EC, cs.Locks, cs.FreshTop || cs.Top
		for n, srt := range cs.Arrays {
			if _, isEC := ma.ECArrays[n]; isEC {
				ms.Arrays[n] = srt
			} else {
				ms.Fresh[n] = srt
			}
		}
		for n, srt := range cs.Fresh {
			ms.Fresh[n] = srt
		}
		for _, arrs := range cs.ByParam {
			for n, srt := range arrs {
				if _, isEC := ma.ECArrays[n]; isEC {
					ms.Arrays[n] = srt
				} else {
					ms.Fresh[n] = srt
				}
			}
		}
		return ms
	}
	if len(cs.ByParam) == 0 {
		return cs
	}
	ms := newModSet()
	ms.union(cs, true)
	for pi, arrs := range cs.ByParam {
		org := orOther
		if pi < len(args) && args[pi] != nil {
			org = ma.origin(args[pi], 0)
		}
		for n, srt := range arrs {
			if org == orFresh {
				if _, ok := ms.Fresh[n]; !ok {
					ms.Fresh[n] = srt
				}
			} else {
				ms.Arrays[n] = srt
			}
		}
	}
	return ms
}

// RetFresh reports whether result i of fn is always a freshly allocated object.
func (ma *ModAnalysis) RetFresh(fn *ssa.Function, i int) bool {
	rf := ma.retFresh[fn]
	return i < len(rf) && rf[i]
}

// globalContentWritten: the container held by the package-level variable is written after initialisation.
func (ma *ModAnalysis) globalContentWritten(g *ssa.Global) bool {
	return len(ma.MutatedGlobals[g]) > 0
}

func (ma *ModAnalysis) noteMutatedGlobal(g *ssa.Global, fn *ssa.Function) {
	if ma.MutatedGlobals == nil {
		ma.MutatedGlobals = map[*ssa.Global]map[string]bool{}
	}
	if ma.MutatedGlobals[g] == nil {
		ma.MutatedGlobals[g] = map[string]bool{}
	}
	ma.MutatedGlobals[g][ma.w.keyOfAny(fn)] = true
}

func (ma *ModAnalysis) isPureFuncType(t types.Type) bool {
	return ma.pureFuncTypes[types.TypeString(t, func(p *types.Package) string { return p.Name() })]
}

func (ma *ModAnalysis) isECFuncType(t types.Type) bool {
	if ma.ecFuncTypes == nil {
		return false
	}
	return ma.ecFuncTypes[types.TypeString(t, func(p *types.Package) string { return p.Name() })]
}

// resolveFrames turns the `frame` designators of the contract files into heap array names.
func (ma *ModAnalysis) resolveFrames() {
	ma.ECArrays = map[string]string{}
	ma.ecFuncTypes = map[string]bool{}
	if ma.sp == nil {
		return
	}
	for _, ft := range ma.sp.FrameECFuncs {
		ma.ecFuncTypes[strings.TrimSpace(ft)] = true
	}
	ma.pureFuncTypes = map[string]bool{}
	for _, ft := range ma.sp.FramePureFuncs {
		ma.pureFuncTypes[strings.TrimSpace(ft)] = true
	}
	for _, d := range ma.sp.FrameEC {
		f := strings.Fields(d)
		if len(f) < 2 {
			ma.sp.errf("frame EC: bad designator %q", d)
			continue
		}
		switch f[0] {
		case "field":
			// pkg.Type.field
			parts := strings.Split(f[1], ".")
			if len(parts) != 3 {
				ma.sp.errf("frame EC: bad field %q", d)
				continue
			}
			t, err := ma.w.LookupType(parts[0]+"."+parts[1], parts[0])
			if err != nil {
				ma.sp.errf("frame EC: %v", err)
				continue
			}
			st, ok := t.Underlying().(*types.Struct)
			found := false
			if ok {
				for i := 0; i < st.NumFields(); i++ {
					if st.Field(i).Name() == parts[2] {
						n, s := ma.sorts.FieldArray(t, i)
						ma.ECArrays[n] = s
						found = true
					}
				}
			}
			if !found {
				ma.sp.errf("frame EC: no field %q", d)
			}
		case "map":
			if len(f) != 3 {
				ma.sp.errf("frame EC: bad map %q", d)
				continue
			}
			kt, err1 := ma.w.LookupType(f[1], "object")
			vt, err2 := ma.w.LookupType(f[2], "object")
			if err1 != nil || err2 != nil {
				ma.sp.errf("frame EC: bad map types %q", d)
				continue
			}
			mt := types.NewMap(kt, vt)
			ks, es := ma.sorts.Of(kt), ma.sorts.Of(vt)
			ma.ECArrays[ma.sorts.MapHasT(mt)] = "(Array Int (Array " + ks + " Bool))"
			ma.ECArrays[ma.sorts.MapValT(mt)] = "(Array Int (Array " + ks + " " + es + "))"
			ma.ECArrays[ma.sorts.MapLenT(mt)] = "Int"
		case "cell":
			t, err := ma.w.LookupType(f[1], "object")
			if err != nil {
				ma.sp.errf("frame EC: %v", err)
				continue
			}
			ma.ECArrays[ma.sorts.CellArrayT(t)] = ma.sorts.Of(t)
		case "elems":
			t, err := ma.w.LookupType(f[1], "object")
			if err != nil {
				ma.sp.errf("frame EC: %v", err)
				continue
			}
			ma.ECArrays[ma.sorts.ElemArrayT(t)] = ma.sorts.Of(t)
		default:
			ma.sp.errf("frame EC: unknown designator %q", d)
		}
	}
}

// NonEC: the part of an effect set that lies outside the EC frame.
func (ma *ModAnalysis) NonEC(arrs map[string]string) []string {
	var out []string
	for _, n := range sortedKeys(arrs) {
		if _, ok := ma.ECArrays[n]; !ok {
			out = append(out, n)
		}
	}
	return out
}

// defaultFrameOf: "EC" when the function has no assigns clause of its own and its package declares EC as
// the default frame (the function is then verified against that frame in the sweep), or when its contract
// says `assigns EC`.
func (ma *ModAnalysis) defaultFrameOf(fn *ssa.Function) string {
	if ma.sp == nil {
		return ""
	}
	if con := ma.sp.Contracts[ma.w.keyOfAny(fn)]; con != nil && con.HasAssigns {
		for _, a := range con.Assigns {
			if a == "EC" {
				return "EC"
			}
		}
		return ""
	}
	root := fn
	for root.Parent() != nil {
		root = root.Parent()
	}
	pk := fnPkg(root)
	if pk == nil {
		return ""
	}
	return ma.sp.DefaultFrame[shortPkg(pk.Pkg.Path())]
}

// IsStoreArray: one of the heap arrays of variable stores (Env.Store : map[SymHash]PanObject).
func (ma *ModAnalysis) IsStoreArray(name string) bool {
	if ma.storeArrays == nil {
		ma.storeArrays = map[string]bool{}
		if t, err := ma.w.LookupType("map[uint64]object.PanObject", "object"); err == nil {
			mt := t.(*types.Map)
			ma.storeArrays[ma.sorts.MapHasT(mt)] = true
			ma.storeArrays[ma.sorts.MapValT(mt)] = true
			ma.storeArrays[ma.sorts.MapLenT(mt)] = true
		}
	}
	return ma.storeArrays[name]
}

// isECFuncValue: the function is converted somewhere to one of the EC-framed function types
// (e.g. a props closure passed to f(...) as object.BuiltInFunc) - or simply has such a signature.
func (ma *ModAnalysis) isECFuncValue(fn *ssa.Function) bool {
	for t := range ma.ecFuncTypes {
		if lt, err := ma.w.LookupType(t, "object"); err == nil {
			if types.Identical(lt.Underlying(), fn.Signature) || types.AssignableTo(fn.Signature, lt) {
				return true
			}
		}
	}
	return false
}
