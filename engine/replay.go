package main

import (
	"context"
	"encoding/json"
	"fmt"
	"os"
	"os/exec"
	"path/filepath"
	"regexp"
	"strings"
	"time"
)

// runReplay replays a solver model on the real code through `go test -overlay` (nothing is written
// into /repo). Returns "reproduced", "not-reproduced", "no-decoder" or "replay-error".
func runReplay(w *World, decoder string, o *Obligation, dir string) (string, map[string]string) {
	switch decoder {
	case "intop":
		return replayIntOp(w, o, dir)
	case "index":
		return replayIndex(w, o, dir)
	}
	return "no-decoder", nil
}

var mapKeyRe = regexp.MustCompile(`\["(.*)"\]`)

func modelIntOf(m map[string]string, key string) (string, bool) {
	v, ok := m[key]
	if !ok {
		return "", false
	}
	return modelInt(v)
}

func goTestOverlay(repo, pkgDir, fileName, content, runName string, env []string) (string, error) {
	tmp, err := os.MkdirTemp("", "gocv-replay-")
	if err != nil {
		return "", err
	}
	defer os.RemoveAll(tmp)
	src := filepath.Join(tmp, fileName)
	if err := os.WriteFile(src, []byte(content), 0o644); err != nil {
		return "", err
	}
	ov := map[string]map[string]string{"Replace": {filepath.Join(repo, pkgDir, fileName): src}}
	ovb, _ := json.Marshal(ov)
	ovf := filepath.Join(tmp, "overlay.json")
	os.WriteFile(ovf, ovb, 0o644)
	ctx, cancel := context.WithTimeout(context.Background(), 180*time.Second)
	defer cancel()
	cmd := exec.CommandContext(ctx, "go", "test", "-v", "-overlay", ovf, "-vet=off", "-count=1", "-timeout", "60s", "-run", runName, "./"+pkgDir)
	cmd.Dir = repo
	cmd.Env = append(os.Environ(), "GOFLAGS=-mod=mod", "GOPROXY=off", "GOSUMDB=off", "GOTOOLCHAIN=local")
	cmd.Env = append(cmd.Env, env...)
	out, err := cmd.CombinedOutput()
	return string(out), err
}

const intOpReplaySrc = `package props_test

import (
	"fmt"
	"math/big"
	"os"
	"strconv"
	"testing"

	"github.com/Syuparn/pangaea/object"
	"github.com/Syuparn/pangaea/props"
)

func TestGocvReplayIntOp(t *testing.T) {
	op := os.Getenv("GOCV_OP")
	a, _ := strconv.ParseInt(os.Getenv("GOCV_A"), 10, 64)
	b, _ := strconv.ParseInt(os.Getenv("GOCV_B"), 10, 64)
	fn := props.IntProps(map[string]object.PanObject{})[op].(*object.PanBuiltIn).Fn
	var res object.PanObject
	func() {
		defer func() {
			if r := recover(); r != nil {
				fmt.Printf("REPLAY: violated (panic: %v)\n", r)
			}
		}()
		res = fn(object.NewEnv(), object.EmptyPanObjPtr(), object.NewPanInt(a), object.NewPanInt(b))
	}()
	if res == nil {
		return
	}
	A, B := big.NewInt(a), big.NewInt(b)
	var want *big.Int
	switch op {
	case "+":
		want = new(big.Int).Add(A, B)
	case "-":
		want = new(big.Int).Sub(A, B)
	case "*":
		want = new(big.Int).Mul(A, B)
	case "**":
		if b >= 0 && b < 100000 {
			want = new(big.Int).Exp(A, B, nil)
		}
	case "//":
		if b != 0 {
			q, m := new(big.Int).DivMod(A, B, new(big.Int)) // Euclidean
			// floor division from Euclidean: adjust when b < 0 and remainder != 0
			if B.Sign() < 0 && m.Sign() != 0 {
				q.Add(q, big.NewInt(1))
				q.Sub(q, big.NewInt(1)) // Euclid q*b+m=a with m>=0: floor(a/b) for b<0 is q-?; recompute below
			}
			// direct definition: largest q with q*b <= a (b>0) / q*b >= a (b<0)
			f := new(big.Float).Quo(new(big.Float).SetInt(A), new(big.Float).SetInt(B))
			_ = f
			q2 := new(big.Int).Quo(A, B) // truncated
			r2 := new(big.Int).Rem(A, B)
			if r2.Sign() != 0 && (r2.Sign() < 0) != (B.Sign() < 0) {
				q2.Sub(q2, big.NewInt(1))
			}
			want = q2
		}
	case "%":
		if b != 0 {
			i, ok := res.(*object.PanInt)
			if !ok {
				fmt.Printf("REPLAY: violated (%d %% %d gave %s)\n", a, b, res.Inspect())
				return
			}
			r := big.NewInt(i.Value)
			d := new(big.Int).Sub(A, r)
			if new(big.Int).Abs(r).Cmp(new(big.Int).Abs(B)) >= 0 || new(big.Int).Rem(d, B).Sign() != 0 {
				fmt.Printf("REPLAY: violated (%d %% %d gave %d)\n", a, b, i.Value)
			} else {
				fmt.Println("REPLAY: holds")
			}
			return
		}
	case "<=>":
		want = big.NewInt(int64(A.Cmp(B)))
	}
	if b == 0 && (op == "//" || op == "%" || op == "/") {
		if e, ok := res.(*object.PanErr); ok && e.ErrKind == object.ZeroDivisionErr {
			fmt.Println("REPLAY: holds")
		} else {
			fmt.Printf("REPLAY: violated (%d %s 0 gave %s)\n", a, op, res.Inspect())
		}
		return
	}
	if want == nil || !want.IsInt64() {
		fmt.Println("REPLAY: holds (result does not fit in 64 bits: outside the property)")
		return
	}
	i, ok := res.(*object.PanInt)
	if !ok || i.Value != want.Int64() {
		fmt.Printf("REPLAY: violated (%d %s %d gave %s, exact result %s)\n", a, op, b, res.Inspect(), want.String())
		return
	}
	fmt.Println("REPLAY: holds")
}
`

func replayIntOp(w *World, o *Obligation, dir string) (string, map[string]string) {
	m := mapKeyRe.FindStringSubmatch(o.Fn)
	if m == nil {
		return "no-decoder", nil
	}
	op := m[1]
	a, ok1 := modelIntOf(o.Result.Model, "t.a.Value")
	b, ok2 := modelIntOf(o.Result.Model, "t.b.Value")
	if !ok1 {
		return "no-decoder", nil
	}
	if !ok2 {
		b = "0"
	}
	decoded := map[string]string{"op": op, "a": a, "b": b, "program": fmt.Sprintf("%s %s %s", a, op, b)}
	out, _ := goTestOverlay(w.RepoDir, "props", "zz_gocv_replay_test.go", intOpReplaySrc, "TestGocvReplayIntOp",
		[]string{"GOCV_OP=" + op, "GOCV_A=" + a, "GOCV_B=" + b})
	decoded["replay_output"] = truncate(lastLines(out, 6), 600)
	switch {
	case strings.Contains(out, "REPLAY: violated"):
		return "reproduced", decoded
	case strings.Contains(out, "REPLAY: holds"):
		return "not-reproduced", decoded
	}
	return "replay-error", decoded
}

func lastLines(s string, n int) string {
	ls := strings.Split(strings.TrimSpace(s), "\n")
	if len(ls) > n {
		ls = ls[len(ls)-n:]
	}
	return strings.Join(ls, "\n")
}

const indexReplaySrc = `package evaluator

import (
	"fmt"
	"os"
	"strconv"
	"testing"

	"github.com/Syuparn/pangaea/object"
)

func gocvBound(name string) object.PanObject {
	v := os.Getenv(name)
	if v == "" || v == "nil" {
		return object.BuiltInNil
	}
	i, _ := strconv.ParseInt(v, 10, 64)
	return object.NewPanInt(i)
}

// reference semantics (the property statement): CPython slice indices
func gocvRef(n int64, s, e, st object.PanObject) ([]int64, bool) {
	step := int64(1)
	if i, ok := st.(*object.PanInt); ok {
		step = i.Value
	}
	if step == 0 {
		return nil, false
	}
	clamp := func(i int64) int64 {
		if i < 0 {
			if i+n < 0 {
				if step < 0 {
					return -1
				}
				return 0
			}
			return i + n
		}
		if i >= n {
			if step < 0 {
				return n - 1
			}
			return n
		}
		return i
	}
	var start, stop int64
	if step > 0 {
		start, stop = 0, n
	} else {
		start, stop = n-1, -1
	}
	if i, ok := s.(*object.PanInt); ok {
		start = clamp(i.Value)
	}
	if i, ok := e.(*object.PanInt); ok {
		stop = clamp(i.Value)
	}
	var out []int64
	if step > 0 {
		for i := start; i < stop; i += step {
			out = append(out, i)
			if i > n {
				break
			}
		}
	} else {
		for i := start; i > stop; i += step {
			out = append(out, i)
			if i < -1 {
				break
			}
		}
	}
	return out, true
}

func TestGocvReplayIndex(t *testing.T) {
	n, _ := strconv.ParseInt(os.Getenv("GOCV_N"), 10, 64)
	if n < 0 || n > 4096 {
		fmt.Println("REPLAY: skipped (sequence too long to build)")
		return
	}
	elems := []object.PanObject{}
	for i := int64(0); i < n; i++ {
		elems = append(elems, object.NewPanInt(i+100))
	}
	arr := object.NewPanArr(elems...)
	if os.Getenv("GOCV_KIND") == "index" {
		idx, _ := strconv.ParseInt(os.Getenv("GOCV_I"), 10, 64)
		var got object.PanObject
		func() {
			defer func() {
				if r := recover(); r != nil {
					fmt.Printf("REPLAY: violated (panic: %v)\n", r)
				}
			}()
			got = arrIndex(idx, arr)
		}()
		if got == nil {
			return
		}
		var want object.PanObject = object.BuiltInNil
		if idx >= 0 && idx < n {
			want = elems[idx]
		} else if idx < 0 && idx >= -n {
			want = elems[idx+n]
		}
		if got != want {
			fmt.Printf("REPLAY: violated (index %d of length %d gave %s)\n", idx, n, got.Inspect())
		} else {
			fmt.Println("REPLAY: holds")
		}
		return
	}
	s, e, st := gocvBound("GOCV_S"), gocvBound("GOCV_E"), gocvBound("GOCV_STEP")
	r := object.NewPanRange(s, e, st)
	want, ok := gocvRef(n, s, e, st)
	var got object.PanObject
	func() {
		defer func() {
			if r := recover(); r != nil {
				fmt.Printf("REPLAY: violated (panic: %v)\n", r)
			}
		}()
		got = arrRange(r, arr)
	}()
	if got == nil {
		return
	}
	if !ok {
		if e, isErr := got.(*object.PanErr); isErr && e.ErrKind == object.ValueErr {
			fmt.Println("REPLAY: holds")
		} else {
			fmt.Printf("REPLAY: violated (zero step gave %s)\n", got.Inspect())
		}
		return
	}
	ga, isArr := got.(*object.PanArr)
	if !isArr {
		fmt.Printf("REPLAY: violated (%s)\n", got.Inspect())
		return
	}
	same := len(ga.Elems) == len(want)
	if same {
		for k, p := range want {
			if ga.Elems[k] != elems[p] {
				same = false
			}
		}
	}
	if !same {
		fmt.Printf("REPLAY: violated (seq of length %d [%s:%s:%s] gave %s, expected positions %v)\n", n, s.Inspect(), e.Inspect(), st.Inspect(), got.Inspect(), want)
		return
	}
	fmt.Println("REPLAY: holds")
}
`

func replayIndex(w *World, o *Obligation, dir string) (string, map[string]string) {
	m := o.Result.Model
	get := func(k string) (string, bool) { return modelIntOf(m, k) }
	decoded := map[string]string{}
	env := []string{}
	switch {
	case strings.HasSuffix(o.Fn, ".arrIndex") || strings.HasSuffix(o.Fn, ".strIndex"):
		n, ok1 := get("t.n")
		i, ok2 := get("t.index")
		if !ok1 || !ok2 {
			return "no-decoder", nil
		}
		decoded["program"] = fmt.Sprintf("seq of length %s indexed by [%s]", n, i)
		env = []string{"GOCV_KIND=index", "GOCV_N=" + n, "GOCV_I=" + i}
	case strings.HasSuffix(o.Fn, ".fixRange"):
		n, ok := get("t.length")
		if !ok {
			return "no-decoder", nil
		}
		st, _ := get("t.step")
		s, e := "nil", "nil"
		if m["t.hasS"] == "true" {
			s, _ = get("t.s")
		}
		if m["t.hasE"] == "true" {
			e, _ = get("t.e")
		}
		decoded["program"] = fmt.Sprintf("seq of length %s sliced by [%s:%s:%s]", n, s, e, st)
		env = []string{"GOCV_KIND=range", "GOCV_N=" + n, "GOCV_S=" + s, "GOCV_E=" + e, "GOCV_STEP=" + st}
	default:
		return "no-decoder", nil
	}
	out, _ := goTestOverlay(w.RepoDir, "evaluator", "zz_gocv_replay_test.go", indexReplaySrc, "TestGocvReplayIndex", env)
	decoded["replay_output"] = truncate(lastLines(out, 6), 800)
	switch {
	case strings.Contains(out, "REPLAY: violated"):
		return "reproduced", decoded
	case strings.Contains(out, "REPLAY: holds"):
		return "not-reproduced", decoded
	case strings.Contains(out, "REPLAY: skipped"):
		return "not-replayable", decoded
	}
	return "replay-error", decoded
}
