package main

import (
	"fmt"
	"go/token"
	"go/types"
	"os"
	"runtime/debug"
	"sort"
	"strconv"
	"strings"

	"golang.org/x/tools/go/ssa"
)

func strconvUnquote(s string) (string, error) { return strconv.Unquote(s) }

// ---- values ----

type LocKind int

const (
	LHeap  LocKind = iota // Array[Ref] (field array or cell array)
	LElem                 // Array[Ref][Idx] (slice/array backing store)
	LLocal                // non-escaping local variable
)

type pathElem struct {
	field int    // struct field index (if isField)
	idx   string // array index term
	isIdx bool
	t     types.Type // type of the container (struct or array type) this elem selects from
}

type Loc struct {
	Kind  LocKind
	Array string
	ASort string // sort of the array's element (content sort at Ref / at Ref,Idx)
	Ref   string
	Idx   string
	Local *ssa.Alloc
	Frame *Frame
	Path  []pathElem
	Root  types.Type // type of content at the root (before path)
	Type  types.Type // type of content after path
}

type Val struct {
	T     string
	Tup   []Val
	L     *Loc
	Fn    *ssa.Function
	Binds []Val
	Boxed types.Type // static type of a non-reference value boxed into an interface (MakeInterface)
	Snaps []Val // per binding: content of a captured variable that is never reassigned (zero Val otherwise)
	Typ   types.Type
}

func (v Val) isLoc() bool { return v.L != nil }

// ---- state ----

type State struct {
	heap   map[string]string
	locals map[*ssa.Alloc]string
	alloc  string
	held   string // lock ghost: 0 none, 1 read, 2 write (term)
	epoch  int    // id of the last whole-heap havoc this state has seen
	trN    string // ghost: number of traced calls made so far by this activation
	// ghost per map range: the set of keys already produced (term of sort (Array K Bool)) and the
	// presence array of the map when the range started
	vis map[*ssa.Range]visInfo
}

type visInfo struct {
	set  string // current visited set
	has0 string // (select H m) at range start
	sort string // (Array K Bool)
}

func (s *State) clone() *State {
	n := &State{heap: make(map[string]string, len(s.heap)), locals: make(map[*ssa.Alloc]string, len(s.locals)), alloc: s.alloc, held: s.held, epoch: s.epoch, trN: s.trN}
	if len(s.vis) > 0 {
		n.vis = make(map[*ssa.Range]visInfo, len(s.vis))
		for k, v := range s.vis {
			n.vis[k] = v
		}
	}
	for k, v := range s.heap {
		n.heap[k] = v
	}
	for k, v := range s.locals {
		n.locals[k] = v
	}
	return n
}

// ---- obligations ----

type Obligation struct {
	Name   string
	Family string
	Fn     string
	Upto   int
	Reach  string
	Goal   string
	Pos    string
	Detail string
	Track  map[string]string // label -> term to read from a model
	Result *SolveResult
	Small  []string // terms to bound when looking for a small model
	ctx    *Ctx
}

// ---- context ----

type Ctx struct {
	curFr        *Frame // frame whose instruction is being executed
	scopeCacheFr *Frame
	scopeCacheN  int
	scopeCache   map[string][]string
	w             *World
	sp            *Specs
	sorts         *Sorts
	fn            *ssa.Function
	key           string
	contract      *Contract
	lines         []string
	arrays        map[string]string // heap array name -> element sort
	strs          map[string]string
	strOrder      []string
	seq           int
	obls          []*Obligation
	unsupported   []string
	globals       map[string]string // global name -> ref const
	usedSpecFuns  map[string]bool
	families      map[string]bool
	oblCount      map[string]int
	escCache      map[*ssa.Alloc]bool
	mods          *ModAnalysis
	entry         *State
	inlineDepth   int
	track         map[string]string
	axiomsEmitted bool
	assumptions   map[string]bool
	topFrame      *Frame
	lockGlobal    string
	epochSeq      int
	curCall       *ssa.CallCommon
	curReach      string
	skipZeroInit  map[int]bool
	specDepth     int    // >0: evaluating spec-level code (inside quantifiers): no defs/assumes/obligations
	specErr       string // set when spec-level evaluation needed something impure
	pendingShift  int
	noWF          bool
	noClosed      bool
	pureGround    map[string]bool
	pureTemplates map[string][]pureTemplate
	extraUses     []string
	curArgs       []Val
	curState      *State
	myStore       string
	gvTypes       map[string]string
	trackSmall    map[string]bool // tracked labels with Int sort that a small-model retry may bound
	declared      map[string]bool
}

type Frame struct {
	fn       *ssa.Function
	vals     map[ssa.Value]Val
	parent   *Frame
	depth    int
	tag      string // name prefix for inlined frames
	contract *Contract
	specVars map[string]TV
	deferred []func(*State, string)
	allocs   []allocRec // objects allocated by this frame's own instructions
	cfg      *cfgInfo   // loop structure of this execution (entry states of its loops)
}

type allocRec struct {
	ref   string
	t     types.Type
	reach string
}

func NewCtx(w *World, sp *Specs, mods *ModAnalysis, fn *ssa.Function, families map[string]bool) *Ctx {
	c := &Ctx{w: w, sp: sp, sorts: mods.sorts, fn: fn, key: w.FuncKey[fn], arrays: map[string]string{},
		strs: map[string]string{}, globals: map[string]string{}, usedSpecFuns: map[string]bool{},
		families: families, oblCount: map[string]int{}, escCache: map[*ssa.Alloc]bool{}, mods: mods,
		track: map[string]string{}, assumptions: map[string]bool{}}
	c.contract = sp.Contracts[c.key]
	return c
}

func (c *Ctx) fresh(base string) string {
	c.seq++
	return fmt.Sprintf("%s_%d", sanitize(base), c.seq)
}

func (c *Ctx) declare(name, sort string) string {
	c.lines = append(c.lines, fmt.Sprintf("(declare-const %s %s)", name, sort))
	return name
}

func (c *Ctx) define(base, sort, term string) string {
	if c.specDepth > 0 {
		return term
	}
	// small terms are used directly
	if len(term) < 24 && !strings.Contains(term, " ") {
		return term
	}
	n := c.fresh(base)
	c.lines = append(c.lines, fmt.Sprintf("(define-fun %s () %s %s)", n, sort, term))
	return n
}

func (c *Ctx) defineAlways(base, sort, term string) string {
	if c.specDepth > 0 {
		return term
	}
	if strings.HasPrefix(sort, "(Array") {
		// arrays appear inside quantifier patterns, where `ite` is not allowed: name them by a constant
		n := c.fresh(base)
		c.lines = append(c.lines, fmt.Sprintf("(declare-const %s %s)", n, sort))
		c.lines = append(c.lines, fmt.Sprintf("(assert (= %s %s))", n, term))
		return n
	}
	n := c.fresh(base)
	c.lines = append(c.lines, fmt.Sprintf("(define-fun %s () %s %s)", n, sort, term))
	return n
}

func (c *Ctx) havoc(base, sort string) string {
	if c.specDepth > 0 {
		c.specErr = "spec-level evaluation needs an unconstrained value (" + base + ")"
	}
	return c.declare(c.fresh(base), sort)
}

func (c *Ctx) assume(reach, fact string) {
	if c.specDepth > 0 {
		return
	}
	if fact == "true" || fact == "" {
		return
	}
	if reach == "true" || reach == "" {
		c.lines = append(c.lines, "(assert "+fact+")")
	} else {
		c.lines = append(c.lines, "(assert (=> "+reach+" "+fact+"))")
	}
}

func (c *Ctx) unsupportedf(f string, a ...interface{}) {
	if c.specDepth > 0 {
		c.specErr = fmt.Sprintf(f, a...)
		return
	}
	c.unsupported = append(c.unsupported, fmt.Sprintf(f, a...))
}

func (c *Ctx) wants(family string) bool { return c.families == nil || c.families[family] }

func (c *Ctx) oblige(family, kind string, pos token.Pos, reach, goal, detail string) {
	if c.specDepth > 0 {
		return
	}
	// loop invariants and callee preconditions are assumed afterwards, so they are always obligations,
	// whatever families were selected
	always := strings.HasPrefix(kind, "INV.") || strings.HasPrefix(kind, "CALLPRE.")
	if !always && !c.wants(family) {
		return
	}
	if goal == "true" {
		return
	}
	if os.Getenv("GOCV_DEBUG_OBL") != "" && !pos.IsValid() && c.seq%97 == 3 {
		debug.PrintStack()
	}
	c.oblCount[kind]++
	name := fmt.Sprintf("%s#%s@%d", c.key, kind, c.oblCount[kind])
	o := &Obligation{Name: name, Family: family, Fn: c.key, Upto: len(c.lines), Reach: reach, Goal: goal,
		Detail: detail, ctx: c, Track: map[string]string{}}
	for k, v := range c.track {
		o.Track[k] = v
		if c.trackSmall[k] {
			o.Small = append(o.Small, v)
		}
	}
	if pos.IsValid() {
		p := c.w.Fset.Position(pos)
		o.Pos = fmt.Sprintf("%s:%d", strings.TrimPrefix(p.Filename, c.w.RepoDir+"/"), p.Line)
	}
	c.obls = append(c.obls, o)
}

// heap array current version (declares base on first use)
func (c *Ctx) arr(st *State, name, elemSort string) string {
	if v, ok := st.heap[name]; ok {
		return v
	}
	if _, ok := c.arrays[name]; !ok {
		c.arrays[name] = elemSort
	}
	// base version: declared in the query header as <name>_0
	if c.entry != nil && c.entry != st {
		if _, ok := c.entry.heap[name]; !ok {
			c.entry.heap[name] = name + "_0"
		}
	}
	base := name + "_0"
	if st.epoch != 0 {
		// first touched after a whole-heap havoc: a version private to that epoch
		base = fmt.Sprintf("%s_e%d", name, st.epoch)
		if c.declared == nil {
			c.declared = map[string]bool{}
		}
		if !c.declared[base] {
			c.declared[base] = true
			c.lines = append(c.lines, fmt.Sprintf("(declare-const %s %s)", base, c.arraySortDecl(name)))
		}
	}
	st.heap[name] = base
	return base
}

func (c *Ctx) arraySortDecl(name string) string {
	es := c.arrays[name]
	if strings.HasPrefix(name, "E_") {
		return "(Array Int (Array Int " + es + "))"
	}
	if strings.HasPrefix(name, "MH_") || strings.HasPrefix(name, "MV_") {
		return es // full sort stored
	}
	if strings.HasPrefix(name, "ML_") {
		return "(Array Int Int)"
	}
	return "(Array Int " + es + ")"
}

func (c *Ctx) setArr(st *State, name, elemSort, term string) {
	c.arr(st, name, elemSort)
	st.heap[name] = c.defineAlways(name, c.arraySortDecl(name), term)
}

func (c *Ctx) havocArr(st *State, name string) {
	if strings.HasPrefix(name, "TR_") {
		return // the ghost call log is not program memory
	}
	if _, ok := c.arrays[name]; !ok {
		return // never used so far; base version is unconstrained anyway
	}
	if _, ok := st.heap[name]; !ok {
		return
	}
	st.heap[name] = c.havoc(name, c.arraySortDecl(name))
}

func (c *Ctx) strConst(s string) string {
	if s == "" {
		return "str_empty"
	}
	if n, ok := c.strs[s]; ok {
		return n
	}
	n := fmt.Sprintf("strc_%d", len(c.strs)+1)
	c.strs[s] = n
	c.strOrder = append(c.strOrder, s)
	return n
}

func (c *Ctx) globalRef(g *ssa.Global) string {
	name := "g_" + sanitize(shortPkg(g.Pkg.Pkg.Path())+"_"+g.Name())
	c.globals[name] = name
	return name
}

func (c *Ctx) tagOf(t types.Type) string { return strconv.Itoa(c.w.TypeTag(t)) }

// ---- query emission ----

const prelude = `(set-option :produce-models true)
(set-logic ALL)
(declare-sort Str 0)
(declare-sort F64 0)
(declare-datatypes ((Slice 0)) (((mk_slice (s_arr Int) (s_off Int) (s_len Int) (s_cap Int)))))
(define-fun nil_slice () Slice (mk_slice 0 0 0 0))
(declare-const str_empty Str)
(declare-const f64_zero F64)
(declare-fun dtype (Int) Int)
(declare-fun fnid (Int) Int)
(declare-fun iterStore (Int) Bool)
(declare-fun strlen (Str) Int)
(declare-fun str_cat (Str Str) Str)
(declare-fun str_lt (Str Str) Bool)
(declare-fun str_at (Str Int) Int)
(declare-fun symhash (Str) Int)
(declare-fun runecount (Str) Int)
(declare-fun rune2str (Int) Str)
(declare-fun i2f (Int) F64)
(declare-fun f2i (F64) Int)
(declare-fun f_add (F64 F64) F64)
(declare-fun f_sub (F64 F64) F64)
(declare-fun f_mul (F64 F64) F64)
(declare-fun f_div (F64 F64) F64)
(declare-fun f_neg (F64) F64)
(declare-fun f_lt (F64 F64) Bool)
(declare-fun f_le (F64 F64) Bool)
(declare-fun f_eq (F64 F64) Bool)
(declare-fun bit_and (Int Int) Int)
(declare-fun bit_or (Int Int) Int)
(declare-fun bit_xor (Int Int) Int)
(declare-fun bit_shl (Int Int) Int)
(declare-fun bit_shr (Int Int) Int)
(define-fun MAXLEN () Int 281474976710656)
(define-fun wrap64 ((x Int)) Int (ite (and (<= (- 9223372036854775808) x) (<= x 9223372036854775807)) x (- (mod (+ x 9223372036854775808) 18446744073709551616) 9223372036854775808)))
(define-fun wrap32 ((x Int)) Int (ite (and (<= (- 2147483648) x) (<= x 2147483647)) x (- (mod (+ x 2147483648) 4294967296) 2147483648)))
(define-fun wrap16 ((x Int)) Int (- (mod (+ x 32768) 65536) 32768))
(define-fun wrap8 ((x Int)) Int (- (mod (+ x 128) 256) 128))
(define-fun wrapu64 ((x Int)) Int (mod x 18446744073709551616))
(define-fun wrapu32 ((x Int)) Int (mod x 4294967296))
(define-fun wrapu16 ((x Int)) Int (mod x 65536))
(define-fun wrapu8 ((x Int)) Int (mod x 256))
(define-fun fits64 ((x Int)) Bool (and (<= (- 9223372036854775808) x) (<= x 9223372036854775807)))
(define-fun abs_i ((x Int)) Int (ite (>= x 0) x (- x)))
(assert (= (strlen str_empty) 0))
(assert (forall ((s Str)) (! (>= (strlen s) 0) :pattern ((strlen s)))))
(assert (forall ((s Str)) (! (and (>= (runecount s) 0) (<= (runecount s) (strlen s))) :pattern ((runecount s)))))
(assert (forall ((a Str) (b Str)) (! (= (strlen (str_cat a b)) (+ (strlen a) (strlen b))) :pattern ((str_cat a b)))))
(assert (forall ((a Str)) (! (= (str_cat a str_empty) a) :pattern ((str_cat a str_empty)))))
(assert (forall ((a Str)) (! (= (str_cat str_empty a) a) :pattern ((str_cat str_empty a)))))
(assert (forall ((a Str) (b Str)) (! (=> (= (symhash a) (symhash b)) (= a b)) :pattern ((symhash a) (symhash b)))))
(assert (forall ((s Str)) (! (and (<= 0 (symhash s)) (<= (symhash s) 18446744073709551615)) :pattern ((symhash s)))))
`

// Query builds the SMT-LIB text of an obligation.
func (c *Ctx) Query(o *Obligation) string {
	var b strings.Builder
	b.WriteString(prelude)
	b.WriteString(c.sorts.Decls())
	// heap arrays (base versions)
	for _, n := range sortedKeys(c.arrays) {
		fmt.Fprintf(&b, "(declare-const %s_0 %s)\n", n, c.arraySortDecl(n))
	}
	// string constants
	if len(c.strOrder) > 0 {
		names := []string{"str_empty"}
		for _, s := range c.strOrder {
			n := c.strs[s]
			fmt.Fprintf(&b, "(declare-const %s Str) ; %q\n", n, truncate(s, 60))
			fmt.Fprintf(&b, "(assert (= (strlen %s) %d))\n", n, len(s))
			names = append(names, n)
		}
		fmt.Fprintf(&b, "(assert (distinct %s))\n", strings.Join(names, " "))
	}
	// globals: distinct refs below alloc0
	if len(c.globals) > 0 {
		gs := sortedKeys(c.globals)
		for i, g := range gs {
			fmt.Fprintf(&b, "(define-fun %s () Int %d)\n", g, i+1)
		}
	}
	fmt.Fprintf(&b, "(define-fun nglobals () Int %d)\n", len(c.globals))
	b.WriteString(c.specFunDecls())
	for _, l := range c.lines[:o.Upto] {
		b.WriteString(l)
		b.WriteString("\n")
	}
	if o.Reach != "" && o.Reach != "true" {
		fmt.Fprintf(&b, "(assert %s)\n", o.Reach)
	}
	if o.Family != "VACUITY" {
		fmt.Fprintf(&b, "(assert (not %s))\n", o.Goal)
	}
	b.WriteString("(check-sat)\n")
	if len(o.Track) > 0 {
		ks := sortedKeys(o.Track)
		var ts []string
		for _, k := range ks {
			ts = append(ts, o.Track[k])
		}
		fmt.Fprintf(&b, "(get-value (%s))\n", strings.Join(ts, " "))
	}
	return b.String()
}

func truncate(s string, n int) string {
	s = strings.ReplaceAll(s, "\n", "\\n")
	if len(s) > n {
		return s[:n] + "..."
	}
	return s
}

// ---- misc helpers ----

func and(xs ...string) string {
	var out []string
	for _, x := range xs {
		if x == "true" || x == "" {
			continue
		}
		if x == "false" {
			return "false"
		}
		out = append(out, x)
	}
	switch len(out) {
	case 0:
		return "true"
	case 1:
		return out[0]
	}
	return "(and " + strings.Join(out, " ") + ")"
}

func or(xs ...string) string {
	var out []string
	for _, x := range xs {
		if x == "false" || x == "" {
			continue
		}
		if x == "true" {
			return "true"
		}
		out = append(out, x)
	}
	switch len(out) {
	case 0:
		return "false"
	case 1:
		return out[0]
	}
	return "(or " + strings.Join(out, " ") + ")"
}

func not(x string) string {
	switch x {
	case "true":
		return "false"
	case "false":
		return "true"
	}
	if strings.HasPrefix(x, "(not ") && strings.HasSuffix(x, ")") {
		inner := x[5 : len(x)-1]
		if balanced(inner) {
			return inner
		}
	}
	return "(not " + x + ")"
}

func balanced(s string) bool {
	d := 0
	for _, r := range s {
		if r == '(' {
			d++
		}
		if r == ')' {
			d--
			if d < 0 {
				return false
			}
		}
	}
	return d == 0
}

func implies(a, b string) string {
	if a == "true" {
		return b
	}
	if b == "true" || a == "false" {
		return "true"
	}
	return "(=> " + a + " " + b + ")"
}

func ite(c, a, b string) string {
	if a == b {
		return a
	}
	if c == "true" {
		return a
	}
	if c == "false" {
		return b
	}
	return "(ite " + c + " " + a + " " + b + ")"
}

func smtInt(v int64) string {
	if v < 0 {
		if v == -9223372036854775808 {
			return "(- 9223372036854775808)"
		}
		return fmt.Sprintf("(- %d)", -v)
	}
	return fmt.Sprintf("%d", v)
}

func sortStrings(s []string) []string { sort.Strings(s); return s }

// constArray: the array that maps every index to the zero value of the element sort. `as const` needs a
// literal value (cvc5); for uninterpreted zeros a fresh array with a quantified definition is used.
func (c *Ctx) constArray(elemSort, zero string) string {
	if zero == "0" || zero == "false" || zero == "true" {
		return fmt.Sprintf("((as const (Array Int %s)) %s)", elemSort, zero)
	}
	if c.specDepth > 0 {
		return fmt.Sprintf("((as const (Array Int %s)) %s)", elemSort, zero)
	}
	n := c.fresh("zeros")
	c.lines = append(c.lines, fmt.Sprintf("(declare-const %s (Array Int %s))", n, elemSort))
	k := c.fresh("k")
	c.lines = append(c.lines, fmt.Sprintf("(assert (forall ((%s Int)) (! (= (select %s %s) %s) :pattern ((select %s %s)))))", k, n, k, zero, n, k))
	return n
}
