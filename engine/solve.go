package main

import (
	"bytes"
	"context"
	"fmt"
	"hash/fnv"
	"os"
	"os/exec"
	"path/filepath"
	"strings"
	"sync"
	"time"
)

type SolveResult struct {
	Status  string // unsat | sat | unknown | timeout | error
	Solver  string
	Seconds float64
	Model   map[string]string
	Raw     string
	Tried   []string
	Confirm string // second solver agreement (thorough)
	Reduced bool   // model comes from the query without quantified background (candidate only)
}

type solverSpec struct {
	name string
	args func(file string, timeoutS int) []string
}

// solverSeed: 0 on the first attempt; the sequential retry of an undecided obligation also tries other seeds
// (a proof found with any seed is a proof; this only removes dependence on one unlucky search order)
var solverSeed = 0

var solvers = []solverSpec{
	{"z3-new", func(f string, t int) []string {
		return []string{"z3-new", fmt.Sprintf("-T:%d", t), fmt.Sprintf("smt.random_seed=%d", solverSeed), fmt.Sprintf("sat.random_seed=%d", solverSeed), f}
	}},
	{"cvc5", func(f string, t int) []string {
		a := []string{"cvc5", fmt.Sprintf("--tlimit=%d", t*1000), "--produce-models", fmt.Sprintf("--seed=%d", solverSeed)}
		if solverSeed%2 == 0 {
			a = append(a, "--mbqi")
		} else {
			a = append(a, "--enum-inst")
		}
		return append(a, f)
	}},
	{"z3", func(f string, t int) []string {
		return []string{"z3", fmt.Sprintf("-T:%d", t), fmt.Sprintf("smt.random_seed=%d", solverSeed), fmt.Sprintf("sat.random_seed=%d", solverSeed), f}
	}},
}

func runSolver(ctx context.Context, sv solverSpec, file string, timeoutS int) (status, out string, secs float64) {
	cctx, cancel := context.WithTimeout(ctx, time.Duration(timeoutS+2)*time.Second)
	defer cancel()
	a := sv.args(file, timeoutS)
	cmd := exec.CommandContext(cctx, a[0], a[1:]...)
	var buf bytes.Buffer
	cmd.Stdout = &buf
	cmd.Stderr = &buf
	t0 := time.Now()
	_ = cmd.Run()
	secs = time.Since(t0).Seconds()
	out = buf.String()
	first := ""
	for _, l := range strings.Split(out, "\n") {
		l = strings.TrimSpace(l)
		if l == "" || strings.HasPrefix(l, "WARNING") {
			continue
		}
		first = l
		break
	}
	switch first {
	case "unsat", "sat", "unknown":
		status = first
	case "timeout":
		status = "timeout"
	default:
		if cctx.Err() != nil {
			status = "timeout"
		} else if strings.Contains(out, "timeout") || strings.Contains(out, "interrupted") {
			status = "timeout"
		} else {
			status = "error"
		}
	}
	return
}

type raceResult struct {
	solver, status, out string
	secs                float64
}

// race runs all solvers concurrently on one file; the first decisive answer (sat/unsat) wins.
func race(file string, timeoutS int) (win raceResult, tried []string) {
	ctx, cancel := context.WithCancel(context.Background())
	defer cancel()
	ch := make(chan raceResult, len(solvers))
	for _, sv := range solvers {
		sv := sv
		go func() {
			st, out, secs := runSolver(ctx, sv, file, timeoutS)
			ch <- raceResult{sv.name, st, out, secs}
		}()
	}
	win = raceResult{status: "unknown"}
	for i := 0; i < len(solvers); i++ {
		r := <-ch
		tried = append(tried, r.solver+":"+r.status)
		if r.status == "unsat" || r.status == "sat" {
			win = r
			cancel()
			// drain in background
			go func(n int) {
				for j := 0; j < n; j++ {
					<-ch
				}
			}(len(solvers) - i - 1)
			return
		}
		if r.status == "timeout" && win.status == "unknown" {
			win.status = "timeout"
		}
		if r.status == "error" {
			win.out += r.solver + ": " + truncate(r.out, 300) + "\n"
		}
	}
	return
}

// Solve discharges one obligation. If no solver proves it, the query is retried with the quantified
// background dropped: a model of that weaker query is a candidate counterexample (to be replayed).
func Solve(o *Obligation, workDir string, timeoutS int, confirm bool) *SolveResult {
	if o.Family == "VACUITY" {
		return solveVacuity(o, workDir)
	}
	q := o.ctx.Query(o)
	noteQuery(o.Name, q)
	fname := filepath.Join(workDir, sanitizeFile(o.Name)+".smt2")
	if err := os.WriteFile(fname, []byte(q), 0o644); err != nil {
		return &SolveResult{Status: "error", Raw: err.Error()}
	}
	res := &SolveResult{Status: "unknown"}
	t0 := time.Now()
	// 1. reduced query (quantified background dropped): unsat there is unsat of the full query
	rq := dropQuantified(q)
	var redSat *raceResult
	if rq != q && o.Family != "VACUITY" {
		rname := filepath.Join(workDir, sanitizeFile(o.Name)+".reduced.smt2")
		if os.WriteFile(rname, []byte(rq), 0o644) == nil {
			w2, t2 := race(rname, timeoutS)
			for _, t := range t2 {
				res.Tried = append(res.Tried, "reduced/"+t)
			}
			if w2.status == "unsat" {
				res.Status = "unsat"
				res.Solver = w2.solver + "(no-quantifiers)"
				res.Seconds = time.Since(t0).Seconds()
				if !keepQueries {
					os.Remove(rname)
					os.Remove(fname)
				}
				return res
			}
			if w2.status == "sat" {
				redSat = &w2
			} else if !keepQueries {
				os.Remove(rname)
			}
		}
	}
	// 1b. weakened query: assumptions with an existential quantifier dropped (again: unsat there is unsat of the
	// full query). Existential invariants make instantiation explode for goals that do not need them.
	if eq := dropExists(q); eq != q {
		ename := filepath.Join(workDir, sanitizeFile(o.Name)+".noexists.smt2")
		if os.WriteFile(ename, []byte(eq), 0o644) == nil {
			// short: where this tier helps it helps at once (the goal does not need the dropped assumptions)
			lim := 2
			w3, t3 := race(ename, lim)
			for _, t := range t3 {
				res.Tried = append(res.Tried, "noexists/"+t)
			}
			if !keepQueries {
				os.Remove(ename)
			}
			if w3.status == "unsat" {
				res.Status = "unsat"
				res.Solver = w3.solver + "(no-existential-assumptions)"
				res.Seconds = time.Since(t0).Seconds()
				if !keepQueries {
					os.Remove(fname)
					if redSat != nil {
						os.Remove(filepath.Join(workDir, sanitizeFile(o.Name)+".reduced.smt2"))
					}
				}
				return res
			}
		}
	}
	// 2. full query
	win, tried := race(fname, timeoutS)
	res.Tried = append(res.Tried, tried...)
	res.Status = win.status
	res.Solver = win.solver
	res.Raw = win.out
	if win.status == "sat" {
		res.Model = parseValues(win.out, o)
	}
	if res.Status != "unsat" && res.Status != "sat" && redSat != nil {
		res.Status = "sat"
		res.Reduced = true
		res.Solver = redSat.solver
		res.Raw = redSat.out
		res.Model = parseValues(redSat.out, o)
	}
	// a model was found: look for a small one (easier to replay and to read)
	if res.Status == "sat" && len(o.Small) > 0 {
		src := q
		if res.Reduced {
			src = rq
		}
		var cons []string
		for _, t := range o.Small {
			cons = append(cons, fmt.Sprintf("(assert (and (<= (- 12) %s) (<= %s 12)))", t, t))
		}
		sq := strings.Replace(src, "(check-sat)", strings.Join(cons, "\n")+"\n(check-sat)", 1)
		sname := filepath.Join(workDir, sanitizeFile(o.Name)+".small.smt2")
		if os.WriteFile(sname, []byte(sq), 0o644) == nil {
			w3, _ := race(sname, timeoutS)
			if w3.status == "sat" {
				res.Model = parseValues(w3.out, o)
				res.Raw = w3.out
				res.Tried = append(res.Tried, "small/"+w3.solver+":sat")
			}
			if !keepQueries {
				os.Remove(sname)
			}
		}
	}
	if res.Status == "unknown" {
		allErr := len(res.Tried) > 0
		for _, t := range res.Tried {
			if !strings.HasSuffix(t, ":error") {
				allErr = false
			}
		}
		if allErr {
			res.Status = "error"
		}
	}
	res.Seconds = time.Since(t0).Seconds()
	if confirm && res.Status == "unsat" {
		for _, sv := range solvers {
			if sv.name == res.Solver {
				continue
			}
			st, _, _ := runSolver(context.Background(), sv, fname, timeoutS)
			if st == "unsat" {
				res.Confirm = sv.name
				break
			}
			if st == "sat" {
				res.Confirm = "DISAGREE:" + sv.name
				break
			}
		}
	}
	if res.Status == "unsat" && !keepQueries {
		os.Remove(fname)
	}
	return res
}

func dropExists(q string) string {
	var b strings.Builder
	lines := strings.Split(q, "\n")
	// the goal is the last assert before (check-sat): never dropped
	goal := -1
	for i, l := range lines {
		if strings.HasPrefix(l, "(check-sat)") {
			break
		}
		if strings.HasPrefix(l, "(assert") {
			goal = i
		}
	}
	for i, l := range lines {
		if i != goal && strings.HasPrefix(l, "(assert") && strings.Contains(l, "(exists ") {
			continue
		}
		b.WriteString(l)
		b.WriteString("\n")
	}
	return strings.TrimSuffix(b.String(), "\n")
}

func dropQuantified(q string) string {
	var b strings.Builder
	for _, l := range strings.Split(q, "\n") {
		if strings.HasPrefix(l, "(assert") && (strings.Contains(l, "(forall ") || strings.Contains(l, "(exists ")) {
			continue
		}
		b.WriteString(l)
		b.WriteString("\n")
	}
	return b.String()
}

var keepQueries = false

// queryDigest: order-independent digest of every query text of this run (evidence that generation is
// deterministic: two runs on the same tree give the same digest)
var (
	queryDigest   uint64
	queryDigestMu sync.Mutex
	queryNames    = map[string]uint64{}
)

func noteQuery(name, q string) {
	h := fnv.New64a()
	h.Write([]byte(name))
	h.Write([]byte{0})
	h.Write([]byte(q))
	v := h.Sum64()
	if d := os.Getenv("GOCV_DUMP_QUERIES"); d != "" && strings.Contains(name, os.Getenv("GOCV_DUMP_MATCH")) {
		os.MkdirAll(d, 0o755)
		os.WriteFile(filepath.Join(d, sanitizeFile(name)+".smt2"), []byte(q), 0o644)
	}
	queryDigestMu.Lock()
	if old, ok := queryNames[name]; ok {
		queryDigest -= old
	}
	queryNames[name] = v
	queryDigest += v
	queryDigestMu.Unlock()
}

func sanitizeFile(s string) string {
	r := strings.NewReplacer("/", "_", "\"", "", "[", "_", "]", "_", "*", "P", "(", "", ")", "", "$", "_", "#", "__", " ", "")
	h := fnv.New32a()
	h.Write([]byte(s))
	s = r.Replace(s)
	if len(s) > 150 {
		s = s[:150]
	}
	return fmt.Sprintf("%s.%08x", s, h.Sum32())
}

// parseValues reads the (get-value ...) answer: ((term value) (term value) ...)
func parseValues(out string, o *Obligation) map[string]string {
	m := map[string]string{}
	// skip warnings, then the status line
	for strings.HasPrefix(strings.TrimSpace(out), "WARNING") {
		j := strings.Index(out, "\n")
		if j < 0 {
			return m
		}
		out = out[j+1:]
	}
	i := strings.Index(out, "\n")
	if i < 0 {
		return m
	}
	body := strings.TrimSpace(out[i+1:])
	if !strings.HasPrefix(body, "(") {
		return m
	}
	// tokenise s-expression
	sx, _ := parseSexp(body)
	keys := sortedKeys(o.Track)
	if lst, ok := sx.([]interface{}); ok {
		for idx, pair := range lst {
			if p, ok := pair.([]interface{}); ok && len(p) == 2 && idx < len(keys) {
				m[keys[idx]] = sexpString(p[1])
			}
		}
	}
	return m
}

func parseSexp(s string) (interface{}, string) {
	s = strings.TrimLeft(s, " \n\t\r")
	if s == "" {
		return nil, ""
	}
	if s[0] == '(' {
		var lst []interface{}
		s = s[1:]
		for {
			s = strings.TrimLeft(s, " \n\t\r")
			if s == "" {
				return lst, ""
			}
			if s[0] == ')' {
				return lst, s[1:]
			}
			var e interface{}
			e, s = parseSexp(s)
			lst = append(lst, e)
		}
	}
	j := 0
	if s[0] == '"' {
		j = 1
		for j < len(s) && s[j] != '"' {
			j++
		}
		j++
	} else if s[0] == '|' {
		j = 1
		for j < len(s) && s[j] != '|' {
			j++
		}
		j++
	} else {
		for j < len(s) && !strings.ContainsRune(" \n\t\r()", rune(s[j])) {
			j++
		}
	}
	return s[:j], s[j:]
}

func sexpString(e interface{}) string {
	switch x := e.(type) {
	case string:
		return x
	case []interface{}:
		var parts []string
		for _, y := range x {
			parts = append(parts, sexpString(y))
		}
		return "(" + strings.Join(parts, " ") + ")"
	}
	return ""
}

// modelInt decodes "5", "(- 5)".
func modelInt(s string) (string, bool) {
	s = strings.TrimSpace(s)
	if strings.HasPrefix(s, "(- ") && strings.HasSuffix(s, ")") {
		return "-" + strings.TrimSpace(s[3:len(s)-1]), true
	}
	for _, r := range s {
		if r < '0' || r > '9' {
			return "", false
		}
	}
	return s, s != ""
}

// solveVacuity: the assumptions are contradictory iff the query is unsat. Anything else (sat, unknown,
// timeout) counts as "not refuted"; short limits suffice because a contradiction among a handful of
// assumptions is found at once.
func solveVacuity(o *Obligation, workDir string) *SolveResult {
	q := o.ctx.Query(o)
	res := &SolveResult{Status: "unknown"}
	t0 := time.Now()
	rname := filepath.Join(workDir, sanitizeFile(o.Name)+".reduced.smt2")
	if os.WriteFile(rname, []byte(dropQuantified(q)), 0o644) == nil {
		w, tried := race(rname, 3)
		res.Tried = append(res.Tried, tried...)
		os.Remove(rname)
		if w.status == "unsat" || w.status == "sat" {
			// unsat: contradictory even without the quantified background. sat: the quantifier-free part of the
			// assumptions (contract clauses, typing facts, path conditions) is consistent - that is the part
			// where contradictions have actually occurred; the quantified background is checked only if this
			// query is undecided
			res.Status, res.Solver = w.status, w.solver+"(no-quantifiers)"
			res.Seconds = time.Since(t0).Seconds()
			return res
		}
	}
	fname := filepath.Join(workDir, sanitizeFile(o.Name)+".smt2")
	if os.WriteFile(fname, []byte(q), 0o644) == nil {
		w, tried := race(fname, 4)
		res.Tried = append(res.Tried, tried...)
		res.Status, res.Solver = w.status, w.solver
		if !keepQueries {
			os.Remove(fname)
		}
	}
	res.Seconds = time.Since(t0).Seconds()
	return res
}
