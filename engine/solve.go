package main

import (
	"bytes"
	"context"
	"fmt"
	"os"
	"os/exec"
	"path/filepath"
	"strings"
	"time"
)

type SolveResult struct {
	Status  string // unsat | sat | unknown | timeout | error
	Solver  string
	Seconds float64
	Model   map[string]string
	Raw     string
	Tried   []string
	Confirm string // second solver agreement (thorough)
}

type solverSpec struct {
	name string
	args func(file string, timeoutS int) []string
}

var solvers = []solverSpec{
	{"z3-new", func(f string, t int) []string { return []string{"z3-new", fmt.Sprintf("-T:%d", t), f} }},
	{"cvc5", func(f string, t int) []string {
		return []string{"cvc5", fmt.Sprintf("--tlimit=%d", t*1000), "--produce-models", "--mbqi", f}
	}},
	{"z3", func(f string, t int) []string { return []string{"z3", fmt.Sprintf("-T:%d", t), f} }},
}

func runSolver(sv solverSpec, file string, timeoutS int) (status, out string, secs float64) {
	ctx, cancel := context.WithTimeout(context.Background(), time.Duration(timeoutS+2)*time.Second)
	defer cancel()
	a := sv.args(file, timeoutS)
	cmd := exec.CommandContext(ctx, a[0], a[1:]...)
	var buf bytes.Buffer
	cmd.Stdout = &buf
	cmd.Stderr = &buf
	t0 := time.Now()
	_ = cmd.Run()
	secs = time.Since(t0).Seconds()
	out = buf.String()
	first := strings.TrimSpace(strings.SplitN(out, "\n", 2)[0])
	switch first {
	case "unsat", "sat", "unknown":
		status = first
	case "timeout":
		status = "timeout"
	default:
		if ctx.Err() != nil {
			status = "timeout"
		} else if strings.Contains(out, "timeout") || strings.Contains(out, "interrupted") {
			status = "timeout"
		} else {
			status = "error"
		}
	}
	return
}

// Solve discharges one obligation: solvers are tried in order until one is decisive.
func Solve(o *Obligation, workDir string, timeoutS int, confirm bool) *SolveResult {
	q := o.ctx.Query(o)
	fname := filepath.Join(workDir, sanitizeFile(o.Name)+".smt2")
	if err := os.WriteFile(fname, []byte(q), 0o644); err != nil {
		return &SolveResult{Status: "error", Raw: err.Error()}
	}
	res := &SolveResult{Status: "unknown"}
	t0 := time.Now()
	for _, sv := range solvers {
		st, out, _ := runSolver(sv, fname, timeoutS)
		res.Tried = append(res.Tried, sv.name+":"+st)
		if st == "unsat" || st == "sat" {
			res.Status = st
			res.Solver = sv.name
			res.Raw = out
			if st == "sat" {
				res.Model = parseValues(out, o)
			}
			break
		}
		if st == "error" {
			res.Raw += sv.name + ": " + truncate(out, 400) + "\n"
		}
		if st == "timeout" && res.Status == "unknown" {
			res.Status = "timeout"
		}
	}
	res.Seconds = time.Since(t0).Seconds()
	if confirm && res.Status == "unsat" {
		for _, sv := range solvers {
			if sv.name == res.Solver {
				continue
			}
			st, _, _ := runSolver(sv, fname, timeoutS)
			if st == "unsat" {
				res.Confirm = sv.name
				break
			}
			if st == "sat" {
				res.Confirm = "DISAGREE:" + sv.name
				break
			}
		}
	}
	if res.Status == "unsat" && !keepQueries {
		os.Remove(fname)
	}
	return res
}

var keepQueries = false

func sanitizeFile(s string) string {
	r := strings.NewReplacer("/", "_", "\"", "", "[", "_", "]", "_", "*", "P", "(", "", ")", "", "$", "_", "#", "__", " ", "")
	s = r.Replace(s)
	if len(s) > 150 {
		s = s[:150]
	}
	return s
}

// parseValues reads the (get-value ...) answer: ((term value) (term value) ...)
func parseValues(out string, o *Obligation) map[string]string {
	m := map[string]string{}
	i := strings.Index(out, "\n")
	if i < 0 {
		return m
	}
	body := strings.TrimSpace(out[i+1:])
	if !strings.HasPrefix(body, "(") {
		return m
	}
	// tokenise s-expression
	sx, _ := parseSexp(body)
	keys := sortedKeys(o.Track)
	if lst, ok := sx.([]interface{}); ok {
		for idx, pair := range lst {
			if p, ok := pair.([]interface{}); ok && len(p) == 2 && idx < len(keys) {
				m[keys[idx]] = sexpString(p[1])
			}
		}
	}
	return m
}

func parseSexp(s string) (interface{}, string) {
	s = strings.TrimLeft(s, " \n\t\r")
	if s == "" {
		return nil, ""
	}
	if s[0] == '(' {
		var lst []interface{}
		s = s[1:]
		for {
			s = strings.TrimLeft(s, " \n\t\r")
			if s == "" {
				return lst, ""
			}
			if s[0] == ')' {
				return lst, s[1:]
			}
			var e interface{}
			e, s = parseSexp(s)
			lst = append(lst, e)
		}
	}
	j := 0
	if s[0] == '"' {
		j = 1
		for j < len(s) && s[j] != '"' {
			j++
		}
		j++
	} else if s[0] == '|' {
		j = 1
		for j < len(s) && s[j] != '|' {
			j++
		}
		j++
	} else {
		for j < len(s) && !strings.ContainsRune(" \n\t\r()", rune(s[j])) {
			j++
		}
	}
	return s[:j], s[j:]
}

func sexpString(e interface{}) string {
	switch x := e.(type) {
	case string:
		return x
	case []interface{}:
		var parts []string
		for _, y := range x {
			parts = append(parts, sexpString(y))
		}
		return "(" + strings.Join(parts, " ") + ")"
	}
	return ""
}

// modelInt decodes "5", "(- 5)".
func modelInt(s string) (string, bool) {
	s = strings.TrimSpace(s)
	if strings.HasPrefix(s, "(- ") && strings.HasSuffix(s, ")") {
		return "-" + strings.TrimSpace(s[3:len(s)-1]), true
	}
	for _, r := range s {
		if r < '0' || r > '9' {
			return "", false
		}
	}
	return s, s != ""
}
