package main

import (
	"fmt"
	"go/token"
	"go/types"
	"strings"

	"golang.org/x/tools/go/ssa"
)

// escapes reports whether the address of a local Alloc can be observed outside
// load/store/field/index uses in this function and its directly-called closures.
func (c *Ctx) escapes(a *ssa.Alloc) bool {
	if v, ok := c.escCache[a]; ok {
		return v
	}
	c.escCache[a] = true // cycle guard
	r := addrEscapes(a, 0)
	c.escCache[a] = r
	return r
}

func addrEscapes(v ssa.Value, depth int) bool {
	if depth > 6 {
		return true
	}
	refs := v.Referrers()
	if refs == nil {
		return true
	}
	for _, r := range *refs {
		switch x := r.(type) {
		case *ssa.DebugRef:
		case *ssa.UnOp:
			if x.Op != token.MUL {
				return true
			}
		case *ssa.Store:
			if x.Val == v {
				return true
			}
		case *ssa.FieldAddr:
			if addrEscapes(x, depth+1) {
				return true
			}
		case *ssa.IndexAddr:
			if x.X != v || addrEscapes(x, depth+1) {
				return true
			}
		case *ssa.MakeClosure:
			// ok iff closure only called directly and the free var does not escape inside
			fn := x.Fn.(*ssa.Function)
			idx := -1
			for i, b := range x.Bindings {
				if b == v {
					idx = i
				}
			}
			if idx < 0 || closureEscapes(x) {
				return true
			}
			if addrEscapes(fn.FreeVars[idx], depth+1) {
				return true
			}
		default:
			return true
		}
	}
	return false
}

// neverReassigned: the captured variable is written exactly once in the enclosing function (its initialisation)
// and never inside the closure, so its content at closure creation is its content for ever.
func neverReassigned(al *ssa.Alloc, clo *ssa.Function, idx int) bool {
	stores := 0
	if refs := al.Referrers(); refs != nil {
		for _, r := range *refs {
			switch x := r.(type) {
			case *ssa.Store:
				if x.Addr == al {
					stores++
				}
			case *ssa.MakeClosure:
				f := x.Fn.(*ssa.Function)
				for i, b := range x.Bindings {
					if b != al || i >= len(f.FreeVars) {
						continue
					}
					if fr := f.FreeVars[i].Referrers(); fr != nil {
						for _, u := range *fr {
							switch y := u.(type) {
							case *ssa.Store:
								if y.Addr == f.FreeVars[i] {
									return false
								}
							case *ssa.UnOp, *ssa.DebugRef:
							default:
								return false // passed on / address taken further: give up
							}
						}
					}
				}
			case *ssa.UnOp, *ssa.DebugRef:
			default:
				return false
			}
		}
	}
	_ = clo
	_ = idx
	return stores <= 1
}

// closureEscapes: the closure value is used other than as the callee of a direct call.
func closureEscapes(mc *ssa.MakeClosure) bool {
	refs := mc.Referrers()
	if refs == nil {
		return true
	}
	for _, r := range *refs {
		switch x := r.(type) {
		case *ssa.DebugRef:
		case *ssa.Call:
			if x.Call.Value != mc {
				return true
			}
			for _, a := range x.Call.Args {
				if a == mc {
					return true
				}
			}
		case *ssa.MakeClosure:
			// captured by another local closure: ok if that one is also only called directly
			// and uses the captured closure only as callee
			fn := x.Fn.(*ssa.Function)
			idx := -1
			for i, b := range x.Bindings {
				if b == mc {
					idx = i
				}
			}
			if idx < 0 || closureEscapes(x) {
				return true
			}
			if fvRefs := fn.FreeVars[idx].Referrers(); fvRefs != nil {
				for _, fr := range *fvRefs {
					if call, ok := fr.(*ssa.Call); ok && call.Call.Value == fn.FreeVars[idx] {
						continue
					}
					if _, ok := fr.(*ssa.DebugRef); ok {
						continue
					}
					return true
				}
			}
		default:
			return true
		}
	}
	return false
}

func ptrElem(t types.Type) types.Type {
	if p, ok := t.Underlying().(*types.Pointer); ok {
		return p.Elem()
	}
	return nil
}

// asLoc interprets a pointer-typed value as a location of its pointee.
func (c *Ctx) asLoc(v Val, ptrType types.Type, st *State) *Loc {
	if v.L != nil {
		return v.L
	}
	elem := ptrElem(ptrType)
	if elem == nil {
		c.unsupportedf("asLoc on non-pointer %s", ptrType)
		elem = types.Typ[types.Int]
	}
	ref := c.term(v)
	if _, isStruct := elem.Underlying().(*types.Struct); isStruct {
		// pointer-to-struct object: fields are separate arrays; whole-object location
		return &Loc{Kind: LHeap, Array: "", Ref: ref, Root: elem, Type: elem}
	}
	if at, isArr := elem.Underlying().(*types.Array); isArr {
		es := c.sorts.Of(at.Elem())
		return &Loc{Kind: LHeap, Array: c.sorts.ElemArrayT(at.Elem()), ASort: es, Ref: ref, Root: elem, Type: elem}
	}
	cs := c.sorts.Of(elem)
	return &Loc{Kind: LHeap, Array: c.sorts.CellArrayT(elem), ASort: cs, Ref: ref, Root: elem, Type: elem}
}

// rootRead reads the content at the root of a location.
func (c *Ctx) rootRead(l *Loc, st *State) string {
	switch l.Kind {
	case LLocal:
		if v, ok := st.locals[l.Local]; ok {
			return v
		}
		z := c.sorts.Zero(l.Root)
		st.locals[l.Local] = z
		return z
	case LElem:
		return fmt.Sprintf("(select (select %s %s) %s)", c.arr(st, l.Array, l.ASort), l.Ref, l.Idx)
	case LHeap:
		if l.Array == "" {
			// whole struct object through pointer: assemble from field arrays
			u := l.Root.Underlying().(*types.Struct)
			var fs []string
			for i := 0; i < u.NumFields(); i++ {
				fs = append(fs, c.readField(st, l.Root, i, l.Ref))
			}
			return c.sorts.MkStruct(l.Root, fs)
		}
		return fmt.Sprintf("(select %s %s)", c.arr(st, l.Array, l.ASort), l.Ref)
	}
	return "0"
}

func (c *Ctx) rootWrite(l *Loc, st *State, val string) {
	switch l.Kind {
	case LLocal:
		st.locals[l.Local] = c.define("loc_"+l.Local.Comment, c.sorts.Of(l.Root), val)
	case LElem:
		a := c.arr(st, l.Array, l.ASort)
		c.setArr(st, l.Array, l.ASort, fmt.Sprintf("(store %s %s (store (select %s %s) %s %s))", a, l.Ref, a, l.Ref, l.Idx, val))
	case LHeap:
		if l.Array == "" {
			u := l.Root.Underlying().(*types.Struct)
			v := c.define("sv", c.sorts.Of(l.Root), val)
			for i := 0; i < u.NumFields(); i++ {
				if c.skipZeroInit != nil && c.skipZeroInit[i] {
					continue
				}
				c.writeField(st, c.curReach, l.Root, i, l.Ref, fmt.Sprintf("(%s %s)", c.sorts.FieldAcc(l.Root, i), v))
			}
			return
		}
		c.setArr(st, l.Array, l.ASort, fmt.Sprintf("(store %s %s %s)", c.arr(st, l.Array, l.ASort), l.Ref, val))
	}
}

// load reads the content of a location (after its path).
func (c *Ctx) load(l *Loc, st *State) string {
	// fast path: pointer-to-struct object + first path elem is a field: read that field array directly
	if l.Kind == LHeap && l.Array == "" && len(l.Path) > 0 && !l.Path[0].isIdx {
		cur := c.readField(st, l.Root, l.Path[0].field, l.Ref)
		return c.applyPath(cur, l.Path[1:])
	}
	return c.applyPath(c.rootRead(l, st), l.Path)
}

func (c *Ctx) applyPath(cur string, path []pathElem) string {
	for _, p := range path {
		if p.isIdx {
			cur = fmt.Sprintf("(select %s %s)", cur, p.idx)
		} else {
			cur = fmt.Sprintf("(%s %s)", c.sorts.FieldAcc(p.t, p.field), cur)
		}
	}
	return cur
}

// updatePath returns the container value with the element at path replaced by val.
func (c *Ctx) updatePath(container string, path []pathElem, val string) string {
	if len(path) == 0 {
		return val
	}
	p := path[0]
	if p.isIdx {
		inner := c.updatePath(fmt.Sprintf("(select %s %s)", container, p.idx), path[1:], val)
		return fmt.Sprintf("(store %s %s %s)", container, p.idx, inner)
	}
	u := p.t.Underlying().(*types.Struct)
	var fs []string
	for i := 0; i < u.NumFields(); i++ {
		acc := fmt.Sprintf("(%s %s)", c.sorts.FieldAcc(p.t, i), container)
		if i == p.field {
			fs = append(fs, c.updatePath(acc, path[1:], val))
		} else {
			fs = append(fs, acc)
		}
	}
	return c.sorts.MkStruct(p.t, fs)
}

func (c *Ctx) store(l *Loc, st *State, val string) {
	if l.Kind == LHeap && l.Array == "" && len(l.Path) > 0 && !l.Path[0].isIdx {
		nv := val
		if len(l.Path) > 1 {
			nv = c.updatePath(c.readField(st, l.Root, l.Path[0].field, l.Ref), l.Path[1:], val)
		}
		c.writeField(st, c.curReach, l.Root, l.Path[0].field, l.Ref, nv)
		return
	}
	if len(l.Path) == 0 {
		c.rootWrite(l, st, val)
		return
	}
	c.rootWrite(l, st, c.updatePath(c.rootRead(l, st), l.Path, val))
}

func (c *Ctx) nonNil(term string) string { return "(not (= " + term + " 0))" }

// locSafety emits the nil-dereference obligation for using a location rooted at a heap ref.
func (c *Ctx) derefSafe(l *Loc, pos token.Pos, reach string, what string) {
	if l.Kind == LLocal {
		return
	}
	if l.Kind == LElem {
		return // bounds were checked at IndexAddr
	}
	g := c.nonNil(l.Ref)
	c.oblige("SAFE", "SAFE.nil", pos, reach, g, "nil dereference: "+what)
	c.assume(reach, g)
}

func (c *Ctx) newRef(st *State, reach string, name string, t types.Type) string {
	ref := c.define(name, "Int", st.alloc)
	st.alloc = c.define("alloc", "Int", "(+ "+st.alloc+" 1)")
	if t != nil {
		c.assume(reach, fmt.Sprintf("(= (dtype %s) %s)", ref, c.tagOf(t)))
	}
	return ref
}

func (c *Ctx) execInstr(fr *Frame, ins ssa.Instruction, st *State, reach string) {
	c.curReach = reach
	switch x := ins.(type) {
	case *ssa.Alloc:
		elem := x.Type().(*types.Pointer).Elem()
		if !x.Heap || !c.escapes(x) {
			if !c.escapes(x) {
				st.locals[x] = c.sorts.Zero(elem)
				fr.vals[x] = Val{L: &Loc{Kind: LLocal, Local: x, Frame: fr, Root: elem, Type: elem}, Typ: x.Type()}
				return
			}
		}
		ref := c.newRef(st, reach, x.Name(), x.Type())
		v := Val{T: ref, Typ: x.Type()}
		fr.vals[x] = v
		if _, isStruct := elem.Underlying().(*types.Struct); isStruct && fr == c.topFrame {
			fr.allocs = append(fr.allocs, allocRec{ref: ref, t: elem, reach: reach})
		}
		// zero-initialise (final fields that the initialisation stores explicitly are left to that store)
		l := c.asLoc(v, x.Type(), st)
		c.skipZeroInit = nil
		if stt, ok := elem.Underlying().(*types.Struct); ok {
			c.skipZeroInit = map[int]bool{}
			if refs := x.Referrers(); refs != nil {
				for _, r := range *refs {
					// a whole-struct store (*p = v) initialises every field
					if ws, ok := r.(*ssa.Store); ok && ws.Addr == ssa.Value(x) {
						for fi := 0; fi < stt.NumFields(); fi++ {
							an, _ := c.sorts.FieldArray(elem, fi)
							if c.isFinal(an) {
								c.skipZeroInit[fi] = true
							}
						}
					}
					if fa, ok := r.(*ssa.FieldAddr); ok && fa.X == x {
						an, _ := c.sorts.FieldArray(elem, fa.Field)
						if c.isFinal(an) && hasStoreTo(fa) {
							c.skipZeroInit[fa.Field] = true
						}
					}
				}
			}
			_ = stt
		}
		c.rootWrite(l, st, c.sorts.Zero(elem))
		c.skipZeroInit = nil
	case *ssa.FieldAddr:
		base := c.operand(fr, x.X, st)
		bl := c.asLoc(base, x.X.Type(), st)
		if bl.Kind == LHeap && len(bl.Path) == 0 {
			c.derefSafe(bl, x.Pos(), reach, "field "+x.X.Name())
		}
		st2 := ptrElem(x.X.Type())
		ft := st2.Underlying().(*types.Struct).Field(x.Field).Type()
		nl := *bl
		nl.Path = append(append([]pathElem{}, bl.Path...), pathElem{field: x.Field, t: st2})
		nl.Type = ft
		fr.vals[x] = Val{L: &nl, Typ: x.Type()}
	case *ssa.IndexAddr:
		base := c.operand(fr, x.X, st)
		idx := c.term(c.operand(fr, x.Index, st))
		switch bt := x.X.Type().Underlying().(type) {
		case *types.Slice:
			s := c.term(base)
			g := fmt.Sprintf("(and (<= 0 %s) (< %s (s_len %s)))", idx, idx, s)
			c.oblige("SAFE", "SAFE.index", x.Pos(), reach, g, "slice index in range")
			c.assume(reach, g)
			es := c.sorts.Of(bt.Elem())
			fr.vals[x] = Val{L: &Loc{Kind: LElem, Array: c.sorts.ElemArrayT(bt.Elem()), ASort: es, Ref: "(s_arr " + s + ")",
				Idx: c.define("ix", "Int", "(+ (s_off "+s+") "+idx+")"), Root: bt.Elem(), Type: bt.Elem()}, Typ: x.Type()}
		case *types.Pointer:
			at := bt.Elem().Underlying().(*types.Array)
			g := fmt.Sprintf("(and (<= 0 %s) (< %s %d))", idx, idx, at.Len())
			c.oblige("SAFE", "SAFE.index", x.Pos(), reach, g, "array index in range")
			c.assume(reach, g)
			bl := c.asLoc(base, x.X.Type(), st)
			if bl.Kind == LHeap && len(bl.Path) == 0 && bl.Array != "" {
				c.derefSafe(bl, x.Pos(), reach, "array pointer")
				es := c.sorts.Of(at.Elem())
				fr.vals[x] = Val{L: &Loc{Kind: LElem, Array: c.sorts.ElemArrayT(at.Elem()), ASort: es, Ref: bl.Ref, Idx: idx,
					Root: at.Elem(), Type: at.Elem()}, Typ: x.Type()}
			} else {
				nl := *bl
				nl.Path = append(append([]pathElem{}, bl.Path...), pathElem{isIdx: true, idx: idx, t: bt.Elem()})
				nl.Type = at.Elem()
				fr.vals[x] = Val{L: &nl, Typ: x.Type()}
			}
		default:
			c.unsupportedf("IndexAddr on %s", x.X.Type())
			fr.vals[x] = c.havocVal(x.Name(), x.Type())
		}
	case *ssa.Store:
		addr := c.operand(fr, x.Addr, st)
		val := c.operand(fr, x.Val, st)
		l := c.asLoc(addr, x.Addr.Type(), st)
		if len(l.Path) == 0 {
			c.derefSafe(l, x.Pos(), reach, "store")
		}
		c.frameCheck(fr, l, st, reach, x.Pos())
		if l.Kind == LElem && len(l.Path) == 0 {
			c.wfStore(reach, x.Pos(), c.term(val), x.Val.Type(), st, "store into a slice element")
		}
		c.store(l, st, c.term(val))
	case *ssa.UnOp:
		c.execUnOp(fr, x, st, reach)
	case *ssa.BinOp:
		c.execBinOp(fr, x, st, reach)
	case *ssa.Call:
		fr.vals[x] = c.execCall(fr, st, reach, x, &x.Call)
	case *ssa.Extract:
		t := c.operand(fr, x.Tuple, st)
		if x.Index < len(t.Tup) {
			fr.vals[x] = t.Tup[x.Index]
		} else {
			c.unsupportedf("extract from non-tuple")
			fr.vals[x] = c.havocVal(x.Name(), x.Type())
		}
	case *ssa.MakeInterface:
		v := c.operand(fr, x.X, st)
		xt := x.X.Type()
		if isRefLike(xt) {
			t := c.term(v)
			// a non-nil pointer keeps its identity; dtype is a fact of the allocation
			if _, isIface := xt.Underlying().(*types.Interface); !isIface {
				c.assume(reach, fmt.Sprintf("(=> (not (= %s 0)) (= (dtype %s) %s))", t, t, c.tagOf(xt)))
				if c.wants("SAFE") && c.sorts.w != nil {
					// typed nil pointer boxed into an interface is modelled as nil interface: demand non-nil
					if _, isPtr := xt.Underlying().(*types.Pointer); isPtr && typedNilCheck {
						g := c.nonNil(t)
						c.oblige("SAFE", "SAFE.typednil", x.Pos(), reach, g, "typed nil pointer converted to interface")
					}
				}
			}
			fr.vals[x] = Val{T: t, Typ: x.Type()}
		} else {
			ref := c.newRef(st, reach, "box", xt)
			s := c.sorts.Of(xt)
			c.useUnbox(s)
			c.assume(reach, fmt.Sprintf("(= (%s %s) %s)", unboxName(s), ref, c.term(v)))
			fr.vals[x] = Val{T: ref, Typ: x.Type(), Boxed: xt}
		}
	case *ssa.ChangeInterface:
		v := c.operand(fr, x.X, st)
		fr.vals[x] = Val{T: c.term(v), Typ: x.Type()}
	case *ssa.ChangeType:
		v := c.operand(fr, x.X, st)
		v.Typ = x.Type()
		fr.vals[x] = v
	case *ssa.Convert:
		c.execConvert(fr, x, st, reach)
	case *ssa.TypeAssert:
		c.execTypeAssert(fr, x, st, reach)
	case *ssa.MakeClosure:
		fn := x.Fn.(*ssa.Function)
		var binds []Val
		var snaps []Val
		for i, b := range x.Bindings {
			bv := c.operand(fr, b, st)
			binds = append(binds, bv)
			var snap Val
			if al, ok := b.(*ssa.Alloc); ok && neverReassigned(al, fn, i) {
				if pt, ok := al.Type().Underlying().(*types.Pointer); ok {
					if srt := c.sorts.Of(pt.Elem()); srt == "Int" || srt == "Bool" || srt == "Slice" || srt == "Str" {
						l := bv.L
						if l == nil && bv.T != "" {
							l = c.asLoc(bv, al.Type(), st)
						}
						if l != nil {
							snap = Val{T: c.load(l, st), Typ: pt.Elem()}
						}
					}
				}
			}
			snaps = append(snaps, snap)
		}
		fr.vals[x] = Val{Fn: fn, Binds: binds, Snaps: snaps, Typ: x.Type()}
	case *ssa.Slice:
		c.execSlice(fr, x, st, reach)
	case *ssa.MakeSlice:
		ln := c.term(c.operand(fr, x.Len, st))
		cp := c.term(c.operand(fr, x.Cap, st))
		g := fmt.Sprintf("(and (<= 0 %s) (<= %s %s) (<= %s MAXLEN))", ln, ln, cp, cp)
		c.oblige("SAFE", "SAFE.makeslice", x.Pos(), reach, g, "makeslice: len/cap in range")
		c.assume(reach, g)
		ref := c.newRef(st, reach, "mk", nil)
		et := x.Type().Underlying().(*types.Slice).Elem()
		es := c.sorts.Of(et)
		a := c.arr(st, c.sorts.ElemArrayT(et), es)
		c.setArr(st, c.sorts.ElemArrayT(et), es, fmt.Sprintf("(store %s %s %s)", a, ref, c.constArray(es, c.sorts.Zero(et))))
		fr.vals[x] = Val{T: c.define(x.Name(), "Slice", fmt.Sprintf("(mk_slice %s 0 %s %s)", ref, ln, cp)), Typ: x.Type()}
	case *ssa.MakeMap:
		ref := c.newRef(st, reach, x.Name(), nil)
		mt := x.Type().Underlying().(*types.Map)
		hn, hs, _, _, ks, _ := c.mapArrays(mt, st)
		h := c.arr(st, hn, hs)
		c.setArr(st, hn, hs, fmt.Sprintf("(store %s %s ((as const (Array %s Bool)) false))", h, ref, ks))
		mln := c.sorts.MapLenT(mt)
		ml := c.arr(st, mln, "Int")
		c.setArr(st, mln, "Int", fmt.Sprintf("(store %s %s 0)", ml, ref))
		fr.vals[x] = Val{T: ref, Typ: x.Type()}
	case *ssa.MapUpdate:
		c.execMapUpdate(fr, x, st, reach)
	case *ssa.Lookup:
		c.execLookup(fr, x, st, reach)
	case *ssa.Field:
		v := c.operand(fr, x.X, st)
		fr.vals[x] = Val{T: c.define(x.Name(), c.sorts.Of(x.Type()), fmt.Sprintf("(%s %s)", c.sorts.FieldAcc(x.X.Type(), x.Field), c.term(v))), Typ: x.Type()}
	case *ssa.Index:
		v := c.operand(fr, x.X, st)
		idx := c.term(c.operand(fr, x.Index, st))
		switch x.X.Type().Underlying().(type) {
		case *types.Array:
			fr.vals[x] = Val{T: fmt.Sprintf("(select %s %s)", c.term(v), idx), Typ: x.Type()}
		default: // string
			g := fmt.Sprintf("(and (<= 0 %s) (< %s (strlen %s)))", idx, idx, c.term(v))
			c.oblige("SAFE", "SAFE.index", x.Pos(), reach, g, "string index in range")
			c.assume(reach, g)
			r := c.define(x.Name(), "Int", fmt.Sprintf("(str_at %s %s)", c.term(v), idx))
			c.assume(reach, fmt.Sprintf("(and (<= 0 %s) (<= %s 255))", r, r))
			fr.vals[x] = Val{T: r, Typ: x.Type()}
		}
	case *ssa.Range:
		c.execRange(fr, x, st, reach)
	case *ssa.Next:
		c.execNext(fr, x, st, reach)
	case *ssa.Defer:
		c.execDefer(fr, x, st, reach)
	case *ssa.Go, *ssa.Send, *ssa.Select, *ssa.MakeChan:
		c.unsupportedf("concurrency instruction %T", ins)
		if v, ok := ins.(ssa.Value); ok {
			fr.vals[v] = c.havocVal(v.Name(), v.Type())
		}
	default:
		c.unsupportedf("instruction %T", ins)
		if v, ok := ins.(ssa.Value); ok {
			fr.vals[v] = c.havocVal(v.Name(), v.Type())
		}
	}
}

var typedNilCheck = false

func unboxName(sort string) string { return "unbox_" + sortTag(sort) }

func (c *Ctx) useUnbox(sort string) {
	d := fmt.Sprintf("(declare-fun %s (Int) %s)", unboxName(sort), sort)
	for _, l := range c.lines {
		if l == d {
			return
		}
	}
	c.lines = append(c.lines, d)
}

func (c *Ctx) execUnOp(fr *Frame, x *ssa.UnOp, st *State, reach string) {
	v := c.operand(fr, x.X, st)
	switch x.Op {
	case token.MUL: // load
		if g, ok := x.X.(*ssa.Global); ok && c.mods.IsFinal(g) {
			c.lockCheck(fr, x.X, st, reach, x.Pos(), false)
			fr.vals[x] = c.finalGlobal(g, st)
			return
		}
		l := c.asLoc(v, x.X.Type(), st)
		if len(l.Path) == 0 {
			c.derefSafe(l, x.Pos(), reach, "load")
		}
		c.lockCheck(fr, x.X, st, reach, x.Pos(), false)
		t := c.define(x.Name(), c.sorts.Of(x.Type()), c.load(l, st))
		res := Val{T: t, Typ: x.Type()}
		fr.vals[x] = res
		if l.Kind != LLocal {
			c.assumeTyped(reach, res, x.Type(), st, 1)
			c.assumeInv(reach, t, x.Type(), st)
			if l.Kind == LElem && len(l.Path) == 0 {
				c.wfRead(reach, t, x.Type(), st)
			}
		}
	case token.NOT:
		fr.vals[x] = Val{T: not(c.term(v)), Typ: x.Type()}
	case token.SUB:
		if isFloat(x.Type()) {
			fr.vals[x] = Val{T: "(f_neg " + c.term(v) + ")", Typ: x.Type()}
		} else {
			fr.vals[x] = Val{T: c.define(x.Name(), "Int", c.wrap(x.Type(), "(- "+c.term(v)+")")), Typ: x.Type()}
		}
	case token.XOR:
		fr.vals[x] = Val{T: c.define(x.Name(), "Int", c.wrap(x.Type(), "(- (- "+c.term(v)+") 1)")), Typ: x.Type()}
	default:
		c.unsupportedf("unop %s", x.Op)
		fr.vals[x] = c.havocVal(x.Name(), x.Type())
	}
}

func (c *Ctx) wrap(t types.Type, term string) string {
	b, ok := t.Underlying().(*types.Basic)
	if !ok {
		return term
	}
	switch b.Kind() {
	case types.Int, types.Int64:
		return "(wrap64 " + term + ")"
	case types.Int32:
		return "(wrap32 " + term + ")"
	case types.Int16:
		return "(wrap16 " + term + ")"
	case types.Int8:
		return "(wrap8 " + term + ")"
	case types.Uint, types.Uint64, types.Uintptr:
		return "(wrapu64 " + term + ")"
	case types.Uint32:
		return "(wrapu32 " + term + ")"
	case types.Uint16:
		return "(wrapu16 " + term + ")"
	case types.Uint8:
		return "(wrapu8 " + term + ")"
	}
	return term
}

func (c *Ctx) execBinOp(fr *Frame, x *ssa.BinOp, st *State, reach string) {
	a := c.operand(fr, x.X, st)
	b := c.operand(fr, x.Y, st)
	ot := x.X.Type()
	name := x.Name()
	set := func(sort, term string) { fr.vals[x] = Val{T: c.define(name, sort, term), Typ: x.Type()} }
	switch {
	case isIntLike(ot):
		at, bt := c.term(a), c.term(b)
		switch x.Op {
		case token.ADD:
			set("Int", c.wrap(x.Type(), "(+ "+at+" "+bt+")"))
		case token.SUB:
			set("Int", c.wrap(x.Type(), "(- "+at+" "+bt+")"))
		case token.MUL:
			set("Int", c.wrap(x.Type(), "(* "+at+" "+bt+")"))
		case token.QUO, token.REM:
			g := "(not (= " + bt + " 0))"
			c.oblige("SAFE", "SAFE.divzero", x.Pos(), reach, g, "integer division by zero")
			c.assume(reach, g)
			q := c.havoc(name+"_q", "Int")
			r := c.havoc(name+"_r", "Int")
			// Go spec: a = q*b + r, |r| < |b|, r = 0 or sign(r) = sign(a)
			c.assume(reach, fmt.Sprintf("(and (= %s (+ (* %s %s) %s)) (< (abs_i %s) (abs_i %s)) (=> (> %s 0) (>= %s 0)) (=> (< %s 0) (<= %s 0)) (=> (= %s 0) (= %s 0)))",
				at, q, bt, r, r, bt, at, r, at, r, at, r))
			if x.Op == token.QUO {
				set("Int", c.wrap(x.Type(), q))
			} else {
				set("Int", r)
			}
		case token.AND:
			r := c.define(name, "Int", "(bit_and "+at+" "+bt+")")
			// x & c with c >= 0 constant lies in [0, c]
			if k, ok := x.Y.(*ssa.Const); ok && k.Value != nil {
				c.assume(reach, fmt.Sprintf("(and (<= 0 %s) (<= %s %s))", r, r, bt))
			}
			fr.vals[x] = Val{T: r, Typ: x.Type()}
			c.assumeTyped(reach, fr.vals[x], x.Type(), st, 0)
		case token.OR, token.XOR, token.SHL, token.SHR, token.AND_NOT:
			f := map[token.Token]string{token.OR: "bit_or", token.XOR: "bit_xor", token.SHL: "bit_shl", token.SHR: "bit_shr", token.AND_NOT: "bit_and"}[x.Op]
			r := c.define(name, "Int", "("+f+" "+at+" "+bt+")")
			fr.vals[x] = Val{T: r, Typ: x.Type()}
			c.assumeTyped(reach, fr.vals[x], x.Type(), st, 0)
		case token.EQL:
			set("Bool", "(= "+at+" "+bt+")")
		case token.NEQ:
			set("Bool", "(not (= "+at+" "+bt+"))")
		case token.LSS:
			set("Bool", "(< "+at+" "+bt+")")
		case token.LEQ:
			set("Bool", "(<= "+at+" "+bt+")")
		case token.GTR:
			set("Bool", "(> "+at+" "+bt+")")
		case token.GEQ:
			set("Bool", "(>= "+at+" "+bt+")")
		default:
			c.unsupportedf("int binop %s", x.Op)
			fr.vals[x] = c.havocVal(name, x.Type())
		}
	case isFloat(ot):
		at, bt := c.term(a), c.term(b)
		switch x.Op {
		case token.ADD:
			set("F64", "(f_add "+at+" "+bt+")")
		case token.SUB:
			set("F64", "(f_sub "+at+" "+bt+")")
		case token.MUL:
			set("F64", "(f_mul "+at+" "+bt+")")
		case token.QUO:
			set("F64", "(f_div "+at+" "+bt+")")
		case token.EQL:
			set("Bool", "(f_eq "+at+" "+bt+")")
		case token.NEQ:
			set("Bool", "(not (f_eq "+at+" "+bt+"))")
		case token.LSS:
			set("Bool", "(f_lt "+at+" "+bt+")")
		case token.LEQ:
			set("Bool", "(f_le "+at+" "+bt+")")
		case token.GTR:
			set("Bool", "(f_lt "+bt+" "+at+")")
		case token.GEQ:
			set("Bool", "(f_le "+bt+" "+at+")")
		default:
			c.unsupportedf("float binop %s", x.Op)
			fr.vals[x] = c.havocVal(name, x.Type())
		}
	case isStringType(ot):
		at, bt := c.term(a), c.term(b)
		switch x.Op {
		case token.ADD:
			set("Str", "(str_cat "+at+" "+bt+")")
		case token.EQL:
			set("Bool", "(= "+at+" "+bt+")")
		case token.NEQ:
			set("Bool", "(not (= "+at+" "+bt+"))")
		case token.LSS:
			set("Bool", "(str_lt "+at+" "+bt+")")
		case token.GTR:
			set("Bool", "(str_lt "+bt+" "+at+")")
		case token.LEQ:
			set("Bool", "(not (str_lt "+bt+" "+at+"))")
		case token.GEQ:
			set("Bool", "(not (str_lt "+at+" "+bt+"))")
		default:
			c.unsupportedf("string binop %s", x.Op)
			fr.vals[x] = c.havocVal(name, x.Type())
		}
	case isBool(ot):
		at, bt := c.term(a), c.term(b)
		switch x.Op {
		case token.EQL:
			set("Bool", "(= "+at+" "+bt+")")
		case token.NEQ:
			set("Bool", "(not (= "+at+" "+bt+"))")
		default:
			c.unsupportedf("bool binop %s", x.Op)
			fr.vals[x] = c.havocVal(name, x.Type())
		}
	default:
		// refs, structs, interfaces: == / !=
		var at, bt string
		if a.Fn != nil || b.Fn != nil {
			at, bt = c.term(a), c.term(b)
		} else {
			at, bt = c.term(a), c.term(b)
		}
		if _, isSlice := ot.Underlying().(*types.Slice); isSlice {
			// only comparison with nil is legal
			other := at
			if k, ok := x.X.(*ssa.Const); ok && k.Value == nil {
				other = bt
			}
			eq := "(= (s_arr " + other + ") 0)"
			if x.Op == token.NEQ {
				eq = not(eq)
			}
			set("Bool", eq)
			return
		}
		switch x.Op {
		case token.EQL:
			set("Bool", "(= "+at+" "+bt+")")
		case token.NEQ:
			set("Bool", "(not (= "+at+" "+bt+"))")
		default:
			c.unsupportedf("binop %s on %s", x.Op, ot)
			fr.vals[x] = c.havocVal(name, x.Type())
		}
	}
}

func (c *Ctx) execConvert(fr *Frame, x *ssa.Convert, st *State, reach string) {
	v := c.operand(fr, x.X, st)
	from, to := x.X.Type(), x.Type()
	name := x.Name()
	switch {
	case isIntLike(from) && isIntLike(to):
		fr.vals[x] = Val{T: c.define(name, "Int", c.wrap(to, c.term(v))), Typ: to}
	case isIntLike(from) && isFloat(to):
		fr.vals[x] = Val{T: "(i2f " + c.term(v) + ")", Typ: to}
	case isFloat(from) && isIntLike(to):
		r := c.define(name, "Int", "(f2i "+c.term(v)+")")
		fr.vals[x] = Val{T: r, Typ: to}
		c.assumeTyped(reach, fr.vals[x], to, st, 0)
	case isFloat(from) && isFloat(to):
		fr.vals[x] = Val{T: c.term(v), Typ: to}
	case isIntLike(from) && isStringType(to):
		fr.vals[x] = Val{T: "(rune2str " + c.term(v) + ")", Typ: to}
	case isStringType(from) && isStringType(to):
		fr.vals[x] = Val{T: c.term(v), Typ: to}
	default:
		if ts, ok := to.Underlying().(*types.Slice); ok && isStringType(from) {
			// []byte(s) / []rune(s): fresh backing array, opaque contents
			ref := c.newRef(st, reach, "conv", nil)
			ln := "(strlen " + c.term(v) + ")"
			if b, ok := ts.Elem().Underlying().(*types.Basic); ok && b.Kind() == types.Int32 {
				ln = "(runecount " + c.term(v) + ")"
			}
			c.arr(st, c.sorts.ElemArrayT(ts.Elem()), c.sorts.Of(ts.Elem()))
			// ground instances of the length axioms (the quantified ones are dropped by the reduced query)
			sv := c.term(v)
			c.assume(reach, fmt.Sprintf("(and (<= 0 (runecount %s)) (<= (runecount %s) (strlen %s)) (<= 0 (strlen %s)) (<= (strlen %s) MAXLEN))", sv, sv, sv, sv, sv))
			fr.vals[x] = Val{T: c.define(name, "Slice", fmt.Sprintf("(mk_slice %s 0 %s %s)", ref, ln, ln)), Typ: to}
			return
		}
		if _, ok := from.Underlying().(*types.Slice); ok && isStringType(to) {
			r := c.havoc(name, "Str")
			el := from.Underlying().(*types.Slice).Elem()
			if b, ok := el.Underlying().(*types.Basic); ok && b.Kind() == types.Int32 {
				c.assume(reach, fmt.Sprintf("(= (runecount %s) (s_len %s))", r, c.term(v)))
			} else {
				c.assume(reach, fmt.Sprintf("(= (strlen %s) (s_len %s))", r, c.term(v)))
			}
			fr.vals[x] = Val{T: r, Typ: to}
			return
		}
		if isRefLike(from) && isRefLike(to) {
			fr.vals[x] = Val{T: c.term(v), Typ: to}
			return
		}
		c.unsupportedf("convert %s -> %s", from, to)
		fr.vals[x] = c.havocVal(name, to)
	}
}

// typeTest returns the condition "x holds a value of type t" for an interface value x.
func (c *Ctx) typeTest(x string, t types.Type) string {
	if iface, ok := t.Underlying().(*types.Interface); ok {
		if iface.NumMethods() == 0 {
			return c.nonNil(x)
		}
		if !c.w.isRepoInterface(t) {
			// external interface: opaque predicate
			p := "impl_" + shortTypeName(t)
			c.declFun(p, "(Int) Bool")
			return "(and " + c.nonNil(x) + " (" + p + " (dtype " + x + ")))"
		}
		var alts []string
		for _, it := range c.w.Implementers(iface) {
			alts = append(alts, fmt.Sprintf("(= (dtype %s) %s)", x, c.tagOf(it)))
		}
		return and(c.nonNil(x), or(alts...))
	}
	return fmt.Sprintf("(and %s (= (dtype %s) %s))", c.nonNil(x), x, c.tagOf(t))
}

func (c *Ctx) declFun(name, sig string) {
	// sig like "(Int) Bool"
	d := fmt.Sprintf("(declare-fun %s %s)", name, sig)
	for _, l := range c.lines {
		if l == d {
			return
		}
	}
	c.lines = append(c.lines, d)
}

func (c *Ctx) execTypeAssert(fr *Frame, x *ssa.TypeAssert, st *State, reach string) {
	v := c.term(c.operand(fr, x.X, st))
	ok := c.define(x.Name()+"_ok", "Bool", c.typeTest(v, x.AssertedType))
	var val Val
	at := x.AssertedType
	if isRefLike(at) {
		val = Val{T: c.define(x.Name()+"_v", "Int", ite(ok, v, "0")), Typ: at}
	} else {
		s := c.sorts.Of(at)
		c.useUnbox(s)
		val = Val{T: c.define(x.Name()+"_v", s, ite(ok, fmt.Sprintf("(%s %s)", unboxName(s), v), c.sorts.Zero(at))), Typ: at}
	}
	// the object behind the interface comes from outside this activation: its type invariant holds
	if isRefLike(at) {
		c.assumeInv(and(reach, ok), val.T, at, st)
	}
	if x.CommaOk {
		fr.vals[x] = Val{Tup: []Val{val, {T: ok, Typ: types.Typ[types.Bool]}}, Typ: x.Type()}
		return
	}
	c.oblige("SAFE", "SAFE.typeassert", x.Pos(), reach, ok, "type assertion "+x.X.Name()+".("+types.TypeString(at, nil)+") cannot fail")
	c.assume(reach, ok)
	fr.vals[x] = val
}

func (c *Ctx) execSlice(fr *Frame, x *ssa.Slice, st *State, reach string) {
	base := c.operand(fr, x.X, st)
	var lo, hi, mx string
	if x.Low != nil {
		lo = c.term(c.operand(fr, x.Low, st))
	} else {
		lo = "0"
	}
	if x.High != nil {
		hi = c.term(c.operand(fr, x.High, st))
	}
	if x.Max != nil {
		mx = c.term(c.operand(fr, x.Max, st))
	}
	switch bt := x.X.Type().Underlying().(type) {
	case *types.Slice:
		s := c.term(base)
		if hi == "" {
			hi = "(s_len " + s + ")"
		}
		capv := "(s_cap " + s + ")"
		if mx != "" {
			capv = mx
		}
		g := fmt.Sprintf("(and (<= 0 %s) (<= %s %s) (<= %s %s) (<= %s (s_cap %s)))", lo, lo, hi, hi, capv, capv, s)
		c.oblige("SAFE", "SAFE.slice", x.Pos(), reach, g, "slice bounds in range")
		c.assume(reach, g)
		fr.vals[x] = Val{T: c.define(x.Name(), "Slice", fmt.Sprintf("(mk_slice (s_arr %s) (+ (s_off %s) %s) (- %s %s) (- %s %s))", s, s, lo, hi, lo, capv, lo)), Typ: x.Type()}
	case *types.Pointer:
		at := bt.Elem().Underlying().(*types.Array)
		n := fmt.Sprint(at.Len())
		if hi == "" {
			hi = n
		}
		capv := n
		if mx != "" {
			capv = mx
		}
		g := fmt.Sprintf("(and (<= 0 %s) (<= %s %s) (<= %s %s) (<= %s %s))", lo, lo, hi, hi, capv, capv, n)
		c.oblige("SAFE", "SAFE.slice", x.Pos(), reach, g, "slice bounds in range")
		c.assume(reach, g)
		ref := c.term(base)
		fr.vals[x] = Val{T: c.define(x.Name(), "Slice", fmt.Sprintf("(mk_slice %s %s (- %s %s) (- %s %s))", ref, lo, hi, lo, capv, lo)), Typ: x.Type()}
	case *types.Basic: // string
		s := c.term(base)
		if hi == "" {
			hi = "(strlen " + s + ")"
		}
		g := fmt.Sprintf("(and (<= 0 %s) (<= %s %s) (<= %s (strlen %s)))", lo, lo, hi, hi, s)
		c.oblige("SAFE", "SAFE.slice", x.Pos(), reach, g, "string slice bounds in range")
		c.assume(reach, g)
		c.declFun("str_sub", "(Str Int Int) Str")
		r := c.define(x.Name(), "Str", fmt.Sprintf("(str_sub %s %s %s)", s, lo, hi))
		c.assume(reach, fmt.Sprintf("(= (strlen %s) (- %s %s))", r, hi, lo))
		fr.vals[x] = Val{T: r, Typ: x.Type()}
	default:
		c.unsupportedf("slice of %s", x.X.Type())
		fr.vals[x] = c.havocVal(x.Name(), x.Type())
	}
}

func (c *Ctx) mapArrays(mt *types.Map, st *State) (hn, hs, vn, vs, ks, es string) {
	ks, es = c.sorts.Of(mt.Key()), c.sorts.Of(mt.Elem())
	hn = c.sorts.MapHasT(mt)
	hs = fmt.Sprintf("(Array Int (Array %s Bool))", ks)
	vn = c.sorts.MapValT(mt)
	vs = fmt.Sprintf("(Array Int (Array %s %s))", ks, es)
	return
}

func (c *Ctx) execMapUpdate(fr *Frame, x *ssa.MapUpdate, st *State, reach string) {
	m := c.term(c.operand(fr, x.Map, st))
	k := c.term(c.operand(fr, x.Key, st))
	v := c.term(c.operand(fr, x.Value, st))
	g := c.nonNil(m)
	c.oblige("SAFE", "SAFE.nilmap", x.Pos(), reach, g, "assignment to entry in nil map")
	c.assume(reach, g)
	mt := x.Map.Type().Underlying().(*types.Map)
	if !c.ecExempt(c.sorts.MapValT(mt)) {
		c.frameCheckRef(fr, m, "map", st, reach, x.Pos())
	} else if c.mods.IsStoreArray(c.sorts.MapValT(mt)) && c.wants("FRAME") && c.storeStrict() {
		c.oblige("FRAME", "FRAME.scope", x.Pos(), reach, c.storeAllowed(m), "assignment to a variable: only this function's own scope (its env parameter) or a scope created here may be written")
	}
	c.lockCheck(fr, x.Map, st, reach, x.Pos(), true)
	c.wfMapStore(reach, x.Pos(), v, mt, st)
	hn, hs, vn, vs, _, _ := c.mapArrays(mt, st)
	h := c.arr(st, hn, hs)
	va := c.arr(st, vn, vs)
	mln := c.sorts.MapLenT(mt)
	ml := c.arr(st, mln, "Int")
	had := fmt.Sprintf("(select (select %s %s) %s)", h, m, k)
	c.setArr(st, mln, "Int", fmt.Sprintf("(store %s %s (ite %s (select %s %s) (+ (select %s %s) 1)))", ml, m, had, ml, m, ml, m))
	c.setArr(st, hn, hs, fmt.Sprintf("(store %s %s (store (select %s %s) %s true))", h, m, h, m, k))
	c.setArr(st, vn, vs, fmt.Sprintf("(store %s %s (store (select %s %s) %s %s))", va, m, va, m, k, v))
}

func (c *Ctx) execLookup(fr *Frame, x *ssa.Lookup, st *State, reach string) {
	m := c.operand(fr, x.X, st)
	k := c.term(c.operand(fr, x.Index, st))
	mt, isMap := x.X.Type().Underlying().(*types.Map)
	if !isMap {
		// string index
		s := c.term(m)
		g := fmt.Sprintf("(and (<= 0 %s) (< %s (strlen %s)))", k, k, s)
		c.oblige("SAFE", "SAFE.index", x.Pos(), reach, g, "string index in range")
		c.assume(reach, g)
		r := c.define(x.Name(), "Int", fmt.Sprintf("(str_at %s %s)", s, k))
		c.assume(reach, fmt.Sprintf("(and (<= 0 %s) (<= %s 255))", r, r))
		fr.vals[x] = Val{T: r, Typ: x.Type()}
		return
	}
	c.lockCheck(fr, x.X, st, reach, x.Pos(), false)
	mm := c.term(m)
	hn, hs, vn, vs, _, _ := c.mapArrays(mt, st)
	h := c.arr(st, hn, hs)
	va := c.arr(st, vn, vs)
	// reading a nil map is legal: has = false
	has := c.define(x.Name()+"_ok", "Bool", fmt.Sprintf("(and (not (= %s 0)) (select (select %s %s) %s))", mm, h, mm, k))
	val := c.define(x.Name()+"_v", c.sorts.Of(mt.Elem()), ite(has, fmt.Sprintf("(select (select %s %s) %s)", va, mm, k), c.sorts.Zero(mt.Elem())))
	vv := Val{T: val, Typ: mt.Elem()}
	c.assume(reach, implies(has, c.typeFact(val, mt.Elem(), st, 1)))
	c.wfMapRead(and(reach, has), val, mt, st)
	if x.CommaOk {
		fr.vals[x] = Val{Tup: []Val{vv, {T: has, Typ: types.Typ[types.Bool]}}, Typ: x.Type()}
	} else {
		fr.vals[x] = vv
	}
}

// finalGlobal: the value of a package-level variable that is only assigned during package
// initialisation is a constant of the run.
func (c *Ctx) finalGlobal(g *ssa.Global, st *State) Val {
	elem := g.Type().(*types.Pointer).Elem()
	name := "gv_" + sanitize(shortPkg(g.Pkg.Pkg.Path())+"_"+g.Name())
	if c.declared == nil {
		c.declared = map[string]bool{}
	}
	if !c.declared[name] {
		c.declared[name] = true
		c.lines = append(c.lines, fmt.Sprintf("(declare-const %s %s)", name, c.sorts.Of(elem)))
		if f := c.typeFact(name, elem, c.entry, 1); f != "true" {
			c.lines = append(c.lines, "(assert "+f+")")
		}
		// auto global invariant (checked by executing package initialisation, see globalinv.go):
		// final pointer-typed package variables of the repository are non-nil and pairwise distinct per type
		_, isMapT := elem.Underlying().(*types.Map)
		if _, isPtr := elem.Underlying().(*types.Pointer); (isPtr || isMapT) && c.w.isRepoPkg(g.Pkg.Pkg.Path()) {
			c.lines = append(c.lines, "(assert (not (= "+name+" 0)))")
			ts := types.TypeString(elem, nil)
			for _, other := range sortedKeys(c.gvTypes) {
				if c.gvTypes[other] == ts {
					c.lines = append(c.lines, "(assert (not (= "+name+" "+other+")))")
				}
			}
			if c.gvTypes == nil {
				c.gvTypes = map[string]string{}
			}
			c.gvTypes[name] = ts
		}
	}
	return Val{T: name, Typ: elem}
}

// readField reads field i of the struct object at ref. Final fields (never written after the
// initialisation of a freshly allocated object, anywhere in the repository) are modelled as
// functions of the reference instead of heap arrays.
func (c *Ctx) readField(st *State, t types.Type, i int, ref string) string {
	an, es := c.sorts.FieldArray(t, i)
	if c.isFinal(an) {
		c.declFun("ff_"+an, "(Int) "+es)
		return fmt.Sprintf("(ff_%s %s)", an, ref)
	}
	return fmt.Sprintf("(select %s %s)", c.arr(st, an, es), ref)
}

func (c *Ctx) writeField(st *State, reach string, t types.Type, i int, ref, val string) {
	an, es := c.sorts.FieldArray(t, i)
	if c.isFinal(an) {
		c.declFun("ff_"+an, "(Int) "+es)
		c.assume(reach, fmt.Sprintf("(= (ff_%s %s) %s)", an, ref, val))
		return
	}
	c.setArr(st, an, es, fmt.Sprintf("(store %s %s %s)", c.arr(st, an, es), ref, val))
}

func hasStoreTo(addr ssa.Value) bool {
	if refs := addr.Referrers(); refs != nil {
		for _, r := range *refs {
			if s, ok := r.(*ssa.Store); ok && s.Addr == addr {
				return true
			}
		}
	}
	return false
}

// isFinal: final-field model applies, except inside the declared writer functions of a
// field that was declared final with a writer list (there the field is an ordinary heap cell).
func (c *Ctx) isFinal(arrayName string) bool {
	if !c.mods.IsFinalField(arrayName) {
		return false
	}
	if c.mods.sp != nil {
		for _, fd := range c.mods.sp.Finals {
			if "H_"+sanitize(fd.Field) == arrayName {
				for _, w := range fd.Writers {
					if w == c.key || strings.HasPrefix(c.key, w+"$") {
						return false
					}
				}
			}
		}
	}
	return true
}
