package main

import (
	"fmt"
	"go/constant"
	"go/types"
	"sort"
	"strings"

	"golang.org/x/tools/go/ssa"
)

// TV is a typed SMT term produced by evaluating a spec expression.
type TV struct {
	T    string
	Typ  types.Type
	V    Val
	Sort string // when Typ is nil (pure logic values)
}

type SpecEval struct {
	c         *Ctx
	fr        *Frame
	st, old   *State
	vars      map[string]TV
	bound     map[string]TV
	pkg       string
	allocOld  string
	phis      map[*ssa.Phi]Val
	header    *ssa.BasicBlock
	inOld     bool
	prevSt    *State // state at the start of the current loop iteration (step clauses)
	entrySt   *State // state on arrival at the loop (loop invariants and steps: atentry(e))
	entryPhis map[*ssa.Phi]Val
}

func (c *Ctx) newSpecEval(fr *Frame, st, old *State) *SpecEval {
	ev := &SpecEval{c: c, fr: fr, st: st, old: old, vars: map[string]TV{}, bound: map[string]TV{}}
	if fr != nil {
		if pk := fnPkg(fr.fn); pk != nil {
			ev.pkg = shortPkg(pk.Pkg.Path())
		}
		for k, v := range fr.specVars {
			ev.vars[k] = v
		}
	}
	if old != nil {
		ev.allocOld = old.alloc
	}
	return ev
}

func (ev *SpecEval) sortOf(tv TV) string {
	if tv.Typ != nil {
		return ev.c.sorts.Of(tv.Typ)
	}
	if tv.Sort != "" {
		return tv.Sort
	}
	return "Int"
}

var (
	tInt  = types.Typ[types.Int]
	tBool = types.Typ[types.Bool]
	tStr  = types.Typ[types.String]
)

func (ev *SpecEval) eval(e SExpr) (TV, error) {
	c := ev.c
	switch x := e.(type) {
	case *SInt:
		return TV{T: x.V, Typ: tInt}, nil
	case *SBool:
		if x.V {
			return TV{T: "true", Typ: tBool}, nil
		}
		return TV{T: "false", Typ: tBool}, nil
	case *SStr:
		return TV{T: c.strConst(x.V), Typ: tStr}, nil
	case *SNil:
		return TV{T: "0", Typ: types.Typ[types.UntypedNil]}, nil
	case *SIdent:
		return ev.ident(x.Name)
	case *SOld:
		sub := *ev
		sub.st = ev.old
		sub.inOld = true
		return sub.eval(x.X)
	case *SUn:
		v, err := ev.eval(x.X)
		if err != nil {
			return TV{}, err
		}
		switch x.Op {
		case "!":
			return TV{T: not(v.T), Typ: tBool}, nil
		case "-":
			return TV{T: "(- " + v.T + ")", Typ: tInt}, nil
		}
	case *SDeref:
		v, err := ev.eval(x.X)
		if err != nil {
			return TV{}, err
		}
		return ev.deref(v)
	case *SBin:
		return ev.bin(x)
	case *SCond:
		cnd, err := ev.eval(x.C)
		if err != nil {
			return TV{}, err
		}
		a, err := ev.eval(x.A)
		if err != nil {
			return TV{}, err
		}
		b, err := ev.eval(x.B)
		if err != nil {
			return TV{}, err
		}
		a, b = ev.unifyNil(a, b)
		return TV{T: ite(cnd.T, a.T, b.T), Typ: a.Typ, Sort: a.Sort}, nil
	case *SQuant:
		return ev.quant(x)
	case *SSel:
		return ev.sel(x)
	case *SIndex:
		return ev.index(x)
	case *SCall:
		return ev.call(x)
	}
	return TV{}, fmt.Errorf("unsupported spec expression %s", e)
}

// closed records the heap-closure fact for a value read from the heap in the evaluation state: what an
// allocated object refers to is itself allocated (and well-typed).
func (ev *SpecEval) closed(base, val string, t types.Type) {
	c := ev.c
	if c.specDepth > 0 || t == nil || c.noClosed {
		return
	}
	_, isSl := t.Underlying().(*types.Slice)
	if !isSl && !isRefLike(t) {
		return
	}
	f := c.typeFact(val, t, ev.st, 0)
	if f == "true" {
		return
	}
	c.lines = append(c.lines, fmt.Sprintf("(assert (=> (and (not (= %s 0)) (< %s %s)) %s))", base, base, ev.st.alloc, f))
}

func (ev *SpecEval) unifyNil(a, b TV) (TV, TV) {
	isNil := func(t TV) bool {
		bt, ok := t.Typ.(*types.Basic)
		return ok && bt.Kind() == types.UntypedNil
	}
	if isNil(a) && !isNil(b) {
		if _, ok := b.Typ.Underlying().(*types.Slice); ok {
			a.T = "nil_slice"
		}
		a.Typ = b.Typ
	}
	if isNil(b) && !isNil(a) {
		if _, ok := a.Typ.Underlying().(*types.Slice); ok {
			b.T = "nil_slice"
		}
		b.Typ = a.Typ
	}
	return a, b
}

func (ev *SpecEval) bin(x *SBin) (TV, error) {
	a, err := ev.eval(x.X)
	if err != nil {
		return TV{}, err
	}
	b, err := ev.eval(x.Y)
	if err != nil {
		return TV{}, err
	}
	switch x.Op {
	case "&&":
		return TV{T: and(a.T, b.T), Typ: tBool}, nil
	case "||":
		return TV{T: or(a.T, b.T), Typ: tBool}, nil
	case "==>":
		return TV{T: implies(a.T, b.T), Typ: tBool}, nil
	case "<==>":
		return TV{T: "(= " + a.T + " " + b.T + ")", Typ: tBool}, nil
	case "==", "!=":
		a, b = ev.unifyNil(a, b)
		var eq string
		if _, isSl := typUnder(a.Typ).(*types.Slice); isSl && (b.T == "nil_slice" || a.T == "nil_slice") {
			o := a.T
			if a.T == "nil_slice" {
				o = b.T
			}
			eq = "(= (s_arr " + o + ") 0)"
		} else {
			eq = "(= " + a.T + " " + b.T + ")"
		}
		if x.Op == "!=" {
			eq = not(eq)
		}
		return TV{T: eq, Typ: tBool}, nil
	case "<", "<=", ">", ">=":
		if a.Typ != nil && isFloat(a.Typ) {
			switch x.Op {
			case "<":
				return TV{T: "(f_lt " + a.T + " " + b.T + ")", Typ: tBool}, nil
			case "<=":
				return TV{T: "(f_le " + a.T + " " + b.T + ")", Typ: tBool}, nil
			case ">":
				return TV{T: "(f_lt " + b.T + " " + a.T + ")", Typ: tBool}, nil
			default:
				return TV{T: "(f_le " + b.T + " " + a.T + ")", Typ: tBool}, nil
			}
		}
		if a.Typ != nil && isStringType(a.Typ) {
			switch x.Op {
			case "<":
				return TV{T: "(str_lt " + a.T + " " + b.T + ")", Typ: tBool}, nil
			case ">":
				return TV{T: "(str_lt " + b.T + " " + a.T + ")", Typ: tBool}, nil
			case "<=":
				return TV{T: "(not (str_lt " + b.T + " " + a.T + "))", Typ: tBool}, nil
			default:
				return TV{T: "(not (str_lt " + a.T + " " + b.T + "))", Typ: tBool}, nil
			}
		}
		return TV{T: "(" + x.Op + " " + a.T + " " + b.T + ")", Typ: tBool}, nil
	case "+":
		if a.Typ != nil && isStringType(a.Typ) {
			return TV{T: "(str_cat " + a.T + " " + b.T + ")", Typ: tStr}, nil
		}
		return TV{T: "(+ " + a.T + " " + b.T + ")", Typ: tInt}, nil
	case "-":
		return TV{T: "(- " + a.T + " " + b.T + ")", Typ: tInt}, nil
	case "*":
		return TV{T: "(* " + a.T + " " + b.T + ")", Typ: tInt}, nil
	case "/":
		return TV{T: "(div " + a.T + " " + b.T + ")", Typ: tInt}, nil
	case "%":
		return TV{T: "(mod " + a.T + " " + b.T + ")", Typ: tInt}, nil
	}
	return TV{}, fmt.Errorf("unsupported operator %s", x.Op)
}

func typUnder(t types.Type) types.Type {
	if t == nil {
		return nil
	}
	return t.Underlying()
}

func (ev *SpecEval) quant(x *SQuant) (TV, error) {
	sub := *ev
	sub.bound = map[string]TV{}
	for k, v := range ev.bound {
		sub.bound[k] = v
	}
	var decls []string
	var guards []string
	for _, v := range x.Vars {
		n := ev.c.fresh("q_" + v.Name)
		t, err := ev.c.w.LookupType(v.Type, ev.pkg)
		if err != nil {
			return TV{}, err
		}
		sub.bound[v.Name] = TV{T: n, Typ: t}
		decls = append(decls, fmt.Sprintf("(%s %s)", n, ev.c.sorts.Of(t)))
		// quantified references and ints range over well-typed values
		if isRefLike(t) {
			guards = append(guards, fmt.Sprintf("(<= 0 %s)", n))
		}
	}
	ev.c.specDepth++
	savedErr := ev.c.specErr
	ev.c.specErr = ""
	body, err := sub.eval(x.Body)
	var trig string
	var terr error
	if err == nil {
		for _, grp := range x.Trigs {
			var ts []string
			for _, t := range grp {
				tv, e2 := sub.eval(t)
				if e2 != nil {
					terr = e2
					break
				}
				ts = append(ts, tv.T)
			}
			if terr != nil {
				break
			}
			trig += " :pattern (" + strings.Join(ts, " ") + ")"
		}
	}
	bad := ev.c.specErr
	ev.c.specErr = savedErr
	ev.c.specDepth--
	if err != nil {
		return TV{}, err
	}
	if terr != nil {
		return TV{}, terr
	}
	if bad != "" {
		return TV{}, fmt.Errorf("quantifier body: %s", bad)
	}
	q := "exists"
	bt := body.T
	if x.Forall {
		q = "forall"
		if len(guards) > 0 {
			bt = implies(and(guards...), bt)
		}
	} else if len(guards) > 0 {
		bt = and(append(guards, bt)...)
	}
	if trig != "" {
		return TV{T: fmt.Sprintf("(%s (%s) (! %s%s))", q, strings.Join(decls, " "), bt, trig), Typ: tBool}, nil
	}
	return TV{T: fmt.Sprintf("(%s (%s) %s)", q, strings.Join(decls, " "), bt), Typ: tBool}, nil
}

func (ev *SpecEval) ident(name string) (TV, error) {
	c := ev.c
	if v, ok := ev.bound[name]; ok {
		return v, nil
	}
	// inside a loop invariant the loop-carried value of a variable shadows its entry value
	if ev.header != nil && ev.fr != nil {
		for _, ins := range ev.header.Instrs {
			phi, ok := ins.(*ssa.Phi)
			if !ok {
				break
			}
			if phi.Comment == name {
				if ev.phis != nil {
					if v, ok := ev.phis[phi]; ok {
						return TV{T: c.termOrEmpty(v), Typ: phi.Type(), V: v}, nil
					}
				}
				if v, ok := ev.fr.vals[phi]; ok {
					return TV{T: c.termOrEmpty(v), Typ: phi.Type(), V: v}, nil
				}
			}
		}
	}
	if ev.header != nil && ev.fr != nil {
		if v, t, ok := ev.enclosingPhi(name); ok {
			return TV{T: c.termOrEmpty(v), Typ: t, V: v}, nil
		}
	}
	if v, ok := ev.vars[name]; ok {
		return v, nil
	}
	switch name {
	case "ncalls":
		return TV{T: ev.st.trN, Typ: tInt}, nil
	case "MAXLEN":
		return TV{T: "MAXLEN", Typ: tInt}, nil
	case "MAXINT64":
		return TV{T: "9223372036854775807", Typ: tInt}, nil
	case "MININT64":
		return TV{T: "(- 9223372036854775808)", Typ: tInt}, nil
	case "held":
		return TV{T: ev.st.held, Typ: tInt}, nil
	}
	if ev.fr != nil {
		if v, t, ok := ev.frameName(name); ok {
			return TV{T: c.termOrEmpty(v), Typ: t, V: v}, nil
		}
	}
	// package-level name of the default package
	if tv, ok, err := ev.member(ev.pkg, name); ok || err != nil {
		return tv, err
	}
	return TV{}, fmt.Errorf("unknown name %q", name)
}

// enclosingPhi: a variable carried by an ENCLOSING loop (not by the loop whose invariant is being evaluated): its
// value in the current outer iteration, innermost enclosing loop first - not the entry value of a parameter of
// the same name.
func (ev *SpecEval) enclosingPhi(name string) (Val, types.Type, bool) {
	if ev.header == nil || ev.fr == nil {
		return Val{}, nil, false
	}
	fr := ev.fr
	ci := ev.c.mods.cfgOf(fr.fn)
	var encl []*loopInfo
	for _, li := range ci.loops {
		if li.header != ev.header && li.blocks[ev.header] {
			encl = append(encl, li)
		}
	}
	sort.Slice(encl, func(i, j int) bool { return len(encl[i].blocks) < len(encl[j].blocks) })
	for _, li := range encl {
		for _, ins := range li.header.Instrs {
			phi, ok := ins.(*ssa.Phi)
			if !ok {
				break
			}
			if phi.Comment == name {
				if v, ok := fr.vals[phi]; ok {
					return v, phi.Type(), true
				}
			}
		}
	}
	return Val{}, nil, false
}

// frameName resolves a source-level variable name in the frame's function.
func (ev *SpecEval) frameName(name string) (Val, types.Type, bool) {
	fr := ev.fr
	fn := fr.fn
	if ev.header != nil {
		for _, ins := range ev.header.Instrs {
			phi, ok := ins.(*ssa.Phi)
			if !ok {
				break
			}
			if phi.Comment == name {
				if ev.phis != nil {
					if v, ok := ev.phis[phi]; ok {
						return v, phi.Type(), true
					}
				}
				if v, ok := fr.vals[phi]; ok {
					return v, phi.Type(), true
				}
			}
		}
	}
	if v, t, ok := ev.enclosingPhi(name); ok {
		return v, t, true
	}
	for _, p := range fn.Params {
		if p.Name() == name {
			if v, ok := fr.vals[p]; ok {
				return v, p.Type(), true
			}
		}
	}
	for _, fv := range fn.FreeVars {
		if fv.Name() == name {
			if v, ok := fr.vals[fv]; ok {
				// captured variables are pointers to cells: deref
				if pt, ok := fv.Type().(*types.Pointer); ok {
					l := ev.c.asLoc(v, fv.Type(), ev.st)
					return Val{T: ev.c.load(l, ev.st), Typ: pt.Elem()}, pt.Elem(), true
				}
				return v, fv.Type(), true
			}
		}
	}
	// entry value of a parameter the body reassigns: <name>0
	if strings.HasSuffix(name, "0") && ev.header != nil {
		base := strings.TrimSuffix(name, "0")
		for _, p := range fn.Params {
			if p.Name() == base {
				if v, ok := fr.vals[p]; ok {
					return v, p.Type(), true
				}
			}
		}
	}
	// phis at the current loop header
	if ev.header != nil {
		for _, ins := range ev.header.Instrs {
			phi, ok := ins.(*ssa.Phi)
			if !ok {
				break
			}
			if phi.Comment == name {
				if ev.phis != nil {
					if v, ok := ev.phis[phi]; ok {
						return v, phi.Type(), true
					}
				}
				if v, ok := fr.vals[phi]; ok {
					return v, phi.Type(), true
				}
			}
		}
	}
	// named allocs (address-taken locals)
	for _, b := range fn.Blocks {
		for _, ins := range b.Instrs {
			if a, ok := ins.(*ssa.Alloc); ok && a.Comment == name {
				if v, ok := fr.vals[a]; ok {
					elem := a.Type().(*types.Pointer).Elem()
					l := ev.c.asLoc(v, a.Type(), ev.st)
					return Val{T: ev.c.load(l, ev.st), Typ: elem}, elem, true
				}
			}
		}
	}
	// DebugRef: latest definition of a local with that name that has a value in the frame
	var best ssa.Value
	for _, b := range fn.Blocks {
		for _, ins := range b.Instrs {
			if d, ok := ins.(*ssa.DebugRef); ok && !d.IsAddr {
				if id, ok := d.Expr.(interface{ String() string }); ok && id.String() == name {
					if _, has := fr.vals[d.X]; has {
						if _, isPhi := d.X.(*ssa.Phi); isPhi && ev.header != nil && d.X.(*ssa.Phi).Block() == ev.header {
							continue
						}
						best = d.X
					} else if _, isC := d.X.(*ssa.Const); isC && best == nil {
						best = d.X
					}
				}
			}
		}
	}
	if best != nil {
		return ev.c.operand(fr, best, ev.st), best.Type(), true
	}
	return Val{}, nil, false
}

func (ev *SpecEval) member(pk, name string) (TV, bool, error) {
	c := ev.c
	m := c.w.LookupMember(pk, name)
	if m == nil {
		return TV{}, false, nil
	}
	switch x := m.(type) {
	case *ssa.Global:
		elem := x.Type().(*types.Pointer).Elem()
		if c.mods.IsFinal(x) {
			if _, isStruct := elem.Underlying().(*types.Struct); !isStruct {
				v := c.finalGlobal(x, ev.st)
				return TV{T: v.T, Typ: elem}, true, nil
			}
		}
		ref := c.globalRef(x)
		if _, isStruct := elem.Underlying().(*types.Struct); isStruct {
			return TV{T: ref, Typ: x.Type()}, true, nil
		}
		l := c.asLoc(Val{T: ref, Typ: x.Type()}, x.Type(), ev.st)
		return TV{T: c.load(l, ev.st), Typ: elem}, true, nil
	case *ssa.NamedConst:
		cv := c.constVal(ssa.NewConst(x.Value.Value, x.Type()))
		return TV{T: cv.T, Typ: x.Type()}, true, nil
	case *ssa.Function:
		v := Val{Fn: x}
		return TV{T: c.term(v), Typ: x.Type(), V: v}, true, nil
	}
	return TV{}, false, nil
}

func (ev *SpecEval) deref(v TV) (TV, error) {
	pt, ok := typUnder(v.Typ).(*types.Pointer)
	if !ok {
		return TV{}, fmt.Errorf("deref of non-pointer %v", v.Typ)
	}
	var l *Loc
	if v.V.L != nil {
		l = v.V.L
	} else {
		l = ev.c.asLoc(Val{T: v.T, Typ: v.Typ}, v.Typ, ev.st)
	}
	r := TV{T: ev.c.load(l, ev.st), Typ: pt.Elem()}
	if v.T != "" {
		ev.closed(v.T, r.T, r.Typ)
	}
	return r, nil
}

func (ev *SpecEval) sel(x *SSel) (TV, error) {
	c := ev.c
	// package-qualified name?
	if id, ok := x.X.(*SIdent); ok {
		if _, isVar := ev.vars[id.Name]; !isVar {
			if _, isB := ev.bound[id.Name]; !isB {
				if _, isPkg := c.w.SSAPkgs[id.Name]; isPkg {
					if ev.fr == nil || !ev.hasFrameName(id.Name) {
						tv, ok, err := ev.member(id.Name, x.Sel)
						if err != nil {
							return TV{}, err
						}
						if ok {
							return tv, nil
						}
						return TV{}, fmt.Errorf("unknown member %s.%s", id.Name, x.Sel)
					}
				}
			}
		}
	}
	v, err := ev.eval(x.X)
	if err != nil {
		return TV{}, err
	}
	if v.Typ == nil {
		return TV{}, fmt.Errorf("field %s of untyped value %s", x.Sel, x.X)
	}
	t := v.Typ
	// auto-deref pointer to struct
	if pt, ok := t.Underlying().(*types.Pointer); ok {
		if stt, ok := pt.Elem().Underlying().(*types.Struct); ok {
			for i := 0; i < stt.NumFields(); i++ {
				if stt.Field(i).Name() == x.Sel {
					r := TV{T: c.readField(ev.st, pt.Elem(), i, v.T), Typ: stt.Field(i).Type()}
					ev.closed(v.T, r.T, r.Typ)
					return r, nil
				}
			}
		}
		return TV{}, fmt.Errorf("no field %s in %s", x.Sel, t)
	}
	if stt, ok := t.Underlying().(*types.Struct); ok {
		for i := 0; i < stt.NumFields(); i++ {
			if stt.Field(i).Name() == x.Sel {
				return TV{T: fmt.Sprintf("(%s %s)", c.sorts.FieldAcc(t, i), v.T), Typ: stt.Field(i).Type()}, nil
			}
		}
	}
	return TV{}, fmt.Errorf("cannot select %s from %s", x.Sel, t)
}

func (ev *SpecEval) hasFrameName(name string) bool {
	_, _, ok := ev.frameName(name)
	return ok
}

func (ev *SpecEval) index(x *SIndex) (TV, error) {
	c := ev.c
	v, err := ev.eval(x.X)
	if err != nil {
		return TV{}, err
	}
	i, err := ev.eval(x.I)
	if err != nil {
		return TV{}, err
	}
	switch t := typUnder(v.Typ).(type) {
	case *types.Slice:
		es := c.sorts.Of(t.Elem())
		a := c.arr(ev.st, c.sorts.ElemArrayT(t.Elem()), es)
		r := TV{T: fmt.Sprintf("(select (select %s (s_arr %s)) (+ (s_off %s) %s))", a, v.T, v.T, i.T), Typ: t.Elem()}
		ev.closed("(s_arr "+v.T+")", r.T, r.Typ)
		return r, nil
	case *types.Map:
		_, _, vn, vs, _, _ := c.mapArrays(t, ev.st)
		va := c.arr(ev.st, vn, vs)
		return TV{T: fmt.Sprintf("(select (select %s %s) %s)", va, v.T, i.T), Typ: t.Elem()}, nil
	case *types.Array:
		return TV{T: fmt.Sprintf("(select %s %s)", v.T, i.T), Typ: t.Elem()}, nil
	}
	return TV{}, fmt.Errorf("cannot index %v", v.Typ)
}

func (ev *SpecEval) call(x *SCall) (TV, error) {
	c := ev.c
	// method call on a value: x.M(args)
	if sel, ok := x.Fun.(*SSel); ok {
		if id, isId := sel.X.(*SIdent); !(isId && ev.isPkgName(id.Name)) {
			return ev.methodCall(sel, x.Args)
		}
		// pkg.specfun(args)
		if _, ok := c.sp.SpecFuns[sel.Sel]; ok {
			return ev.call(&SCall{Fun: &SIdent{sel.Sel}, Args: x.Args, TypeArg: x.TypeArg})
		}
		return TV{}, fmt.Errorf("call of %s not allowed in specs (use a spec fun)", x.Fun)
	}
	id, ok := x.Fun.(*SIdent)
	if !ok {
		return TV{}, fmt.Errorf("unsupported call %s", x)
	}
	if id.Name == "atentry" && len(x.Args) == 2 {
		// atentry(N, e): the value of e when loop N of this function was (last) reached - usable after that loop too
		nv, err := ev.eval(x.Args[0])
		if err != nil {
			return TV{}, err
		}
		if ev.fr == nil {
			return TV{}, fmt.Errorf("atentry(N, e) needs a function frame")
		}
		lcfg := ev.fr.cfg
		if lcfg == nil {
			lcfg = c.mods.cfgOf(ev.fr.fn)
		}
		for _, li := range lcfg.loops {
			if fmt.Sprint(li.ordinal) == nv.T && li.entrySt != nil {
				sub := *ev
				sub.st = li.entrySt
				sub.phis = li.entryPhis
				sub.header = li.header
				return sub.eval(x.Args[1])
			}
		}
		return TV{}, fmt.Errorf("atentry: loop %s has not been reached on this path", nv.T)
	}
	if id.Name == "atentry" && len(x.Args) == 1 {
		// the value of e when the loop was reached (before its first iteration)
		if ev.entrySt == nil {
			return TV{}, fmt.Errorf("atentry() is only meaningful in a loop invariant or step clause")
		}
		sub := *ev
		sub.st = ev.entrySt
		sub.phis = ev.entryPhis
		return sub.eval(x.Args[0])
	}
	if id.Name == "prev" && len(x.Args) == 1 {
		if ev.prevSt == nil {
			return TV{}, fmt.Errorf("prev() is only meaningful in a loop step clause")
		}
		sub := *ev
		sub.st = ev.prevSt
		sub.phis = nil
		return sub.eval(x.Args[0])
	}
	if (id.Name == "funcref" && len(x.Args) == 1) || (id.Name == "isClosure" && len(x.Args) == 2) || (id.Name == "captured" && len(x.Args) == 3) {
		// function values: funcref("pkg.f") is the constant of a top-level function; isClosure(v, "pkg.f$1") says v
		// is a closure of that function literal; captured(v, "pkg.f$1", "x") is the value it captured for x
		ks, ok := x.Args[len(x.Args)-1].(*SStr)
		kidx := len(x.Args) - 1
		if id.Name == "captured" {
			ks, ok = x.Args[1].(*SStr)
			kidx = 1
		}
		_ = kidx
		if !ok {
			return TV{}, fmt.Errorf("%s: function key must be a string literal", id.Name)
		}
		fn := c.w.Funcs[ks.V]
		if fn == nil {
			return TV{}, fmt.Errorf("%s: unknown function %q", id.Name, ks.V)
		}
		if id.Name == "funcref" {
			return TV{T: c.term(Val{Fn: fn, Typ: fn.Type()}), Typ: fn.Type()}, nil
		}
		v, err := ev.eval(x.Args[0])
		if err != nil {
			return TV{}, err
		}
		if id.Name == "isClosure" {
			return TV{T: fmt.Sprintf("(and (> %s nglobals) (= (fnid %s) %d))", v.T, v.T, c.w.fnID(fn)), Typ: tBool}, nil
		}
		ns, ok := x.Args[2].(*SStr)
		if !ok {
			return TV{}, fmt.Errorf("captured: variable name must be a string literal")
		}
		for k, fv := range fn.FreeVars {
			if fv.Name() == ns.V {
				ft := fv.Type()
				if pt, ok := ft.Underlying().(*types.Pointer); ok {
					// a variable captured by reference: its content (recorded only if it is never reassigned)
					ft = pt.Elem()
				}
				srt := c.sorts.Of(ft)
				name := c.bindFun(k, srt)
				return TV{T: fmt.Sprintf("(%s %s)", name, v.T), Typ: ft}, nil
			}
		}
		return TV{}, fmt.Errorf("captured: %s has no captured variable %q", ks.V, ns.V)
	}
	if id.Name == "called" && len(x.Args) == 2 {
		i, err := ev.eval(x.Args[0])
		if err != nil {
			return TV{}, err
		}
		var fid string
		switch f := x.Args[1].(type) {
		case *SStr:
			if fn := c.w.Funcs[f.V]; fn != nil {
				fid = smtInt(int64(c.w.fnID(fn)))
			} else {
				fid = smtInt(int64(dynID(f.V)))
			}
		case *SSel:
			if pk, ok := f.X.(*SIdent); ok {
				if fn := c.w.Funcs[pk.Name+"."+f.Sel]; fn != nil {
					fid = smtInt(int64(c.w.fnID(fn)))
				}
			}
		case *SIdent:
			if fn := c.w.Funcs[ev.pkg+"."+f.Name]; fn != nil {
				fid = smtInt(int64(c.w.fnID(fn)))
			} else {
				fid = smtInt(int64(dynID(f.Name)))
			}
		}
		if fid == "" {
			return TV{}, fmt.Errorf("called: unknown function %s", x.Args[1])
		}
		a := c.arr(ev.st, "TR_fn", "Int")
		return TV{T: fmt.Sprintf("(and (<= 0 %s) (< %s %s) (= (select %s %s) %s))", i.T, i.T, ev.st.trN, a, i.T, fid), Typ: tBool}, nil
	}
	var args []TV
	for _, a := range x.Args {
		v, err := ev.eval(a)
		if err != nil {
			return TV{}, err
		}
		args = append(args, v)
	}
	need := func(n int) error {
		if len(args) != n {
			return fmt.Errorf("%s expects %d args", id.Name, n)
		}
		return nil
	}
	switch id.Name {
	case "len":
		if err := need(1); err != nil {
			return TV{}, err
		}
		if args[0].Typ == nil && args[0].Sort == "Slice" {
			return TV{T: "(s_len " + args[0].T + ")", Typ: tInt}, nil
		}
		switch typUnder(args[0].Typ).(type) {
		case *types.Slice:
			return TV{T: "(s_len " + args[0].T + ")", Typ: tInt}, nil
		case *types.Basic:
			return TV{T: "(strlen " + args[0].T + ")", Typ: tInt}, nil
		case *types.Map:
			ml := c.arr(ev.st, c.sorts.MapLenT(typUnder(args[0].Typ).(*types.Map)), "Int")
			return TV{T: fmt.Sprintf("(ite (= %s 0) 0 (select %s %s))", args[0].T, ml, args[0].T), Typ: tInt}, nil
		}
		return TV{}, fmt.Errorf("len of %v", args[0].Typ)
	case "cap":
		return TV{T: "(s_cap " + args[0].T + ")", Typ: tInt}, nil
	case "arrOf":
		return TV{T: "(s_arr " + args[0].T + ")", Typ: tInt}, nil
	case "offOf":
		return TV{T: "(s_off " + args[0].T + ")", Typ: tInt}, nil
	case "visited":
		// visited(N, k): key k has been produced by the map range of loop N of this function
		if err := need(2); err != nil {
			return TV{}, err
		}
		rng := c.rangeOfLoop(ev.fr, args[0].T)
		if rng == nil {
			return TV{}, fmt.Errorf("visited: loop %s of this function does not range over a map", args[0].T)
		}
		vi, ok := ev.st.vis[rng]
		if !ok {
			// before the range starts nothing has been visited
			return TV{T: "false", Typ: tBool}, nil
		}
		return TV{T: fmt.Sprintf("(select %s %s)", vi.set, args[1].T), Typ: tBool}, nil
	case "has":
		if err := need(2); err != nil {
			return TV{}, err
		}
		mt, ok := typUnder(args[0].Typ).(*types.Map)
		if !ok {
			return TV{}, fmt.Errorf("has on non-map")
		}
		hn, hs, _, _, _, _ := c.mapArrays(mt, ev.st)
		h := c.arr(ev.st, hn, hs)
		return TV{T: fmt.Sprintf("(and (not (= %s 0)) (select (select %s %s) %s))", args[0].T, h, args[0].T, args[1].T), Typ: tBool}, nil
	case "fresh":
		if err := need(1); err != nil {
			return TV{}, err
		}
		t := args[0].T
		if _, ok := typUnder(args[0].Typ).(*types.Slice); ok {
			t = "(s_arr " + t + ")"
		}
		return TV{T: fmt.Sprintf("(>= %s %s)", t, ev.allocOld), Typ: tBool}, nil
	case "isT":
		t, err := c.w.LookupType(x.TypeArg, ev.pkg)
		if err != nil {
			return TV{}, err
		}
		return TV{T: c.typeTest(args[0].T, t), Typ: tBool}, nil
	case "as":
		t, err := c.w.LookupType(x.TypeArg, ev.pkg)
		if err != nil {
			return TV{}, err
		}
		if !isRefLike(t) {
			s := c.sorts.Of(t)
			c.useUnbox(s)
			return TV{T: fmt.Sprintf("(%s %s)", unboxName(s), args[0].T), Typ: t}, nil
		}
		return TV{T: args[0].T, Typ: t}, nil
	case "tag":
		t, err := c.w.LookupType(x.TypeArg, ev.pkg)
		if err != nil {
			return TV{}, err
		}
		return TV{T: c.tagOf(t), Typ: tInt}, nil
	case "dtype":
		return TV{T: "(dtype " + args[0].T + ")", Typ: tInt}, nil
	case "wrap64", "abs_i":
		return TV{T: "(" + id.Name + " " + args[0].T + ")", Typ: tInt}, nil
	case "fits64":
		return TV{T: "(fits64 " + args[0].T + ")", Typ: tBool}, nil
	case "feq":
		return TV{T: "(f_eq " + args[0].T + " " + args[1].T + ")", Typ: tBool}, nil
	case "i2f":
		return TV{T: "(i2f " + args[0].T + ")", Typ: types.Typ[types.Float64]}, nil
	case "fdiv", "fadd", "fsub", "fmul":
		return TV{T: "(f_" + id.Name[1:] + " " + args[0].T + " " + args[1].T + ")", Typ: types.Typ[types.Float64]}, nil
	case "sliceArg", "sliceArg2", "sliceRes":
		pre := map[string]string{"sliceArg": "TR_sa", "sliceArg2": "TR_sb", "sliceRes": "TR_sr"}[id.Name]
		aa := c.arr(ev.st, pre+"_arr", "Int")
		ao := c.arr(ev.st, pre+"_off", "Int")
		al := c.arr(ev.st, pre+"_len", "Int")
		ac := c.arr(ev.st, pre+"_cap", "Int")
		i := args[0].T
		return TV{T: fmt.Sprintf("(mk_slice (select %s %s) (select %s %s) (select %s %s) (select %s %s))", aa, i, ao, i, al, i, ac, i), Sort: "Slice"}, nil
	case "nvarargs":
		a := c.arr(ev.st, "TR_len", "Int")
		return TV{T: fmt.Sprintf("(select %s %s)", a, args[0].T), Typ: tInt}, nil
	case "callee":
		// the function value a logged call went through (calls of function-typed values only)
		a := c.arr(ev.st, "TR_callee", "Int")
		return TV{T: fmt.Sprintf("(select %s %s)", a, args[0].T), Typ: tInt}, nil
	case "arg1", "arg2", "arg3", "arg4", "arg5", "arg6", "result":
		arr := map[string]string{"arg1": "TR_a1", "arg2": "TR_a2", "arg3": "TR_a3", "arg4": "TR_a4", "arg5": "TR_a5", "arg6": "TR_a6", "result": "TR_res"}[id.Name]
		a := c.arr(ev.st, arr, "Int")
		t, _ := c.w.LookupType("object.PanObject", "object")
		return TV{T: fmt.Sprintf("(select %s %s)", a, args[0].T), Typ: t}, nil
	case "result2":
		a := c.arr(ev.st, "TR_res2", "Int")
		t, _ := c.w.LookupType("object.PanObject", "object")
		return TV{T: fmt.Sprintf("(select %s %s)", a, args[0].T), Typ: t}, nil
	case "resultok":
		a := c.arr(ev.st, "TR_res2", "Int")
		return TV{T: fmt.Sprintf("(= (select %s %s) 1)", a, args[0].T), Typ: tBool}, nil
	case "resultb":
		a := c.arr(ev.st, "TR_res", "Int")
		return TV{T: fmt.Sprintf("(= (select %s %s) 1)", a, args[0].T), Typ: tBool}, nil
	case "rune2str":
		return TV{T: "(rune2str " + args[0].T + ")", Typ: tStr}, nil
	case "iterStore":
		return TV{T: "(iterStore " + args[0].T + ")", Typ: tBool}, nil
	case "symhash":
		return TV{T: "(symhash " + args[0].T + ")", Typ: tInt}, nil
	case "strlen":
		return TV{T: "(strlen " + args[0].T + ")", Typ: tInt}, nil
	case "runecount":
		return TV{T: "(runecount " + args[0].T + ")", Typ: tInt}, nil
	case "allocated":
		// the reference existed at entry
		return TV{T: fmt.Sprintf("(< %s %s)", args[0].T, ev.allocOld), Typ: tBool}, nil
	}
	if sf := c.sp.SpecFuns[id.Name]; sf != nil {
		if len(sf.Params) != len(args) {
			return TV{}, fmt.Errorf("spec fun %s expects %d args", sf.Name, len(sf.Params))
		}
		if sf.Macro {
			if sf.Body == nil {
				return TV{}, fmt.Errorf("spec macro %s has no body", sf.Name)
			}
			sub := *ev
			sub.bound = map[string]TV{}
			sub.vars = map[string]TV{}
			sub.fr = nil
			sub.pkg = sf.Pkg
			for i, p := range sf.Params {
				t, err := c.w.LookupType(p.Type, sf.Pkg)
				if err != nil {
					return TV{}, err
				}
				a := args[i]
				a.Typ = t
				sub.bound[p.Name] = a
			}
			r, err := sub.eval(sf.Body)
			if err != nil {
				return TV{}, fmt.Errorf("macro %s: %v", sf.Name, err)
			}
			if rt, err := c.w.LookupType(sf.Result, sf.Pkg); err == nil {
				r.Typ = rt
			}
			return r, nil
		}
		c.usedSpecFuns[sf.Name] = true
		rt, err := c.w.LookupType(sf.Result, sf.Pkg)
		if err != nil {
			return TV{}, err
		}
		var as []string
		for i, a := range args {
			t := a.T
			// nil literal for slice param
			if pt, err := c.w.LookupType(sf.Params[i].Type, sf.Pkg); err == nil {
				if _, isSl := pt.Underlying().(*types.Slice); isSl && t == "0" {
					t = "nil_slice"
				}
			}
			as = append(as, t)
		}
		if len(as) == 0 {
			return TV{T: sf.Name, Typ: rt}, nil
		}
		return TV{T: "(" + sf.Name + " " + strings.Join(as, " ") + ")", Typ: rt}, nil
	}
	return TV{}, fmt.Errorf("unknown spec function %q", id.Name)
}

func (ev *SpecEval) isPkgName(n string) bool {
	if _, ok := ev.vars[n]; ok {
		return false
	}
	if _, ok := ev.bound[n]; ok {
		return false
	}
	_, ok := ev.c.w.SSAPkgs[n]
	return ok
}

// methodCall: pure accessor methods (Proto, Type, Zero, Hash ...) evaluated by closed-world dispatch
// with inlining, in the evaluation state; effects are discarded.
func (ev *SpecEval) methodCall(sel *SSel, argx []SExpr) (TV, error) {
	c := ev.c
	recv, err := ev.eval(sel.X)
	if err != nil {
		return TV{}, err
	}
	if recv.Typ == nil {
		return TV{}, fmt.Errorf("method %s on untyped value", sel.Sel)
	}
	var args []Val
	for _, a := range argx {
		v, err := ev.eval(a)
		if err != nil {
			return TV{}, err
		}
		args = append(args, Val{T: v.T, Typ: v.Typ})
	}
	obj, _, _ := types.LookupFieldOrMethod(recv.Typ, true, nil, sel.Sel)
	if obj == nil {
		// unexported: need the package
		if n := namedOf(recv.Typ); n != nil {
			obj, _, _ = types.LookupFieldOrMethod(recv.Typ, true, n.Obj().Pkg(), sel.Sel)
		}
	}
	m, ok := obj.(*types.Func)
	if !ok {
		return TV{}, fmt.Errorf("no method %s on %s", sel.Sel, recv.Typ)
	}
	sig := m.Type().(*types.Signature)
	var resType types.Type = sig.Results()
	if sig.Results().Len() == 1 {
		resType = sig.Results().At(0).Type()
	}
	if _, isIface := recv.Typ.Underlying().(*types.Interface); isIface {
		if !c.w.isRepoInterface(recv.Typ) || !c.mods.PureIface(recv.Typ, m) {
			return TV{}, fmt.Errorf("method %s is not a pure accessor on every implementer; not usable in specs", sel.Sel)
		}
		res := c.pureInvoke(recv.Typ, m, recv.T, args, resType)
		return TV{T: res.T, Typ: resType, V: res}, nil
	}
	mset := c.w.Prog.MethodSets.MethodSet(recv.Typ)
	s := mset.Lookup(m.Pkg(), m.Name())
	if s == nil {
		return TV{}, fmt.Errorf("method %s not in method set of %s", sel.Sel, recv.Typ)
	}
	mfn := c.w.Prog.MethodValue(s)
	if !c.mods.pureOf(mfn).pure {
		return TV{}, fmt.Errorf("method %s of %s is not a pure accessor; not usable in specs", sel.Sel, recv.Typ)
	}
	c.specDepth++
	savedErr := c.specErr
	c.specErr = ""
	scratch := ev.st.clone()
	fr := &Frame{fn: mfn, vals: map[ssa.Value]Val{}, depth: 1}
	res := c.inlineCall(fr, scratch, "true", "spec_"+sel.Sel, mfn, nil, append([]Val{{T: recv.T, Typ: recv.Typ}}, args...), resType)
	bad := c.specErr
	c.specErr = savedErr
	c.specDepth--
	if bad != "" {
		return TV{}, fmt.Errorf("method %s: %s", sel.Sel, bad)
	}
	return TV{T: c.termOrEmpty(res), Typ: resType, V: res}, nil
}

func namedOf(t types.Type) *types.Named {
	if p, ok := t.(*types.Pointer); ok {
		t = p.Elem()
	}
	n, _ := t.(*types.Named)
	return n
}

// ---- spec fun declarations and axioms for a query ----

func (c *Ctx) specFunDecls() string {
	var b strings.Builder
	// declare all spec funs that are used (plus those used by used axioms: include all to be simple)
	names := sortedKeys(c.sp.SpecFuns)
	declared := map[string]bool{}
	// uninterpreted first, then defined (definitions may reference others)
	for _, n := range names {
		sf := c.sp.SpecFuns[n]
		if sf.Body != nil || sf.Macro {
			continue
		}
		var ps []string
		okAll := true
		for _, p := range sf.Params {
			t, err := c.w.LookupType(p.Type, sf.Pkg)
			if err != nil {
				okAll = false
				break
			}
			ps = append(ps, c.sorts.Of(t))
		}
		rt, err := c.w.LookupType(sf.Result, sf.Pkg)
		if err != nil || !okAll {
			continue
		}
		fmt.Fprintf(&b, "(declare-fun %s (%s) %s)\n", n, strings.Join(ps, " "), c.sorts.Of(rt))
		declared[n] = true
	}
	return b.String()
}

// emitAxioms evaluates the package axioms in the entry state (they may only mention
// immutable spec-level functions and globals) and asserts them.
func (c *Ctx) emitAxioms(st *State) {
	// defined spec funs: non-recursive ones become define-fun (in dependency order); recursive ones are
	// declared and given a quantified definitional axiom
	defined := map[string]*SpecFun{}
	for _, n := range sortedKeys(c.sp.SpecFuns) {
		if sf := c.sp.SpecFuns[n]; sf.Body != nil && !sf.Macro {
			defined[n] = sf
		}
	}
	deps := map[string][]string{}
	for n, sf := range defined {
		for m := range defined {
			if strings.Contains(sf.BodyTxt, m+"(") {
				deps[n] = append(deps[n], m)
			}
		}
	}
	recursive := map[string]bool{}
	var order []string
	state := map[string]int{}
	var visit func(n string)
	visit = func(n string) {
		if state[n] == 2 {
			return
		}
		if state[n] == 1 {
			recursive[n] = true
			return
		}
		state[n] = 1
		ds := deps[n]
		sort.Strings(ds)
		for _, d := range ds {
			if d == n {
				recursive[n] = true
				continue
			}
			visit(d)
		}
		state[n] = 2
		order = append(order, n)
	}
	for _, n := range sortedKeys(defined) {
		visit(n)
	}
	sig := func(sf *SpecFun) (ps []string, rt string, ok bool) {
		for _, p := range sf.Params {
			t, err := c.w.LookupType(p.Type, sf.Pkg)
			if err != nil {
				return nil, "", false
			}
			ps = append(ps, c.sorts.Of(t))
		}
		t, err := c.w.LookupType(sf.Result, sf.Pkg)
		if err != nil {
			return nil, "", false
		}
		return ps, c.sorts.Of(t), true
	}
	// recursive ones (and anything depending on a cycle) are declared up front
	for _, n := range order {
		if recursive[n] {
			sf := defined[n]
			ps, rt, ok := sig(sf)
			if !ok {
				c.unsupportedf("spec fun %s: bad types", n)
				continue
			}
			c.lines = append(c.lines, fmt.Sprintf("(declare-fun %s (%s) %s)", n, strings.Join(ps, " "), rt))
		}
	}
	for _, n := range order {
		sf := defined[n]
		ps, rt, ok := sig(sf)
		if !ok {
			if !recursive[n] {
				c.unsupportedf("spec fun %s: bad types", n)
			}
			continue
		}
		ev := c.newSpecEval(nil, st, st)
		ev.pkg = sf.Pkg
		var decls, args []string
		for i, p := range sf.Params {
			t, _ := c.w.LookupType(p.Type, sf.Pkg)
			q := c.fresh("a_" + p.Name)
			ev.bound[p.Name] = TV{T: q, Typ: t}
			decls = append(decls, fmt.Sprintf("(%s %s)", q, ps[i]))
			args = append(args, q)
		}
		c.specDepth++
		savedErr := c.specErr
		c.specErr = ""
		body, err := ev.eval(sf.Body)
		bad := c.specErr
		c.specErr = savedErr
		c.specDepth--
		if err != nil || bad != "" {
			c.unsupportedf("spec fun %s: %v %s", n, err, bad)
			continue
		}
		if !recursive[n] {
			c.lines = append(c.lines, fmt.Sprintf("(define-fun %s (%s) %s %s)", n, strings.Join(decls, " "), rt, body.T))
			continue
		}
		if len(args) == 0 {
			c.lines = append(c.lines, fmt.Sprintf("(assert (= %s %s))", n, body.T))
		} else {
			app := "(" + n + " " + strings.Join(args, " ") + ")"
			c.lines = append(c.lines, fmt.Sprintf("(assert (forall (%s) (! (= %s %s) :pattern (%s))))", strings.Join(decls, " "), app, body.T, app))
		}
	}
	uses := map[string]bool{}
	if c.contract != nil {
		for _, u := range c.contract.Uses {
			uses[u] = true
		}
	}
	for _, u := range c.extraUses {
		uses[u] = true
	}
	for _, ax := range c.sp.Axioms {
		if !ax.Global && !uses[ax.Name] {
			continue
		}
		ev := c.newSpecEval(nil, st, st)
		ev.pkg = ax.Pkg
		tv, err := ev.eval(ax.Expr)
		if err != nil {
			c.unsupportedf("axiom %s: %v", ax.Name, err)
			continue
		}
		c.lines = append(c.lines, "(assert "+tv.T+") ; axiom "+ax.Name)
	}
	for _, gi := range c.sp.GlobalInvs {
		ev := c.newSpecEval(nil, st, st)
		ev.pkg = gi.Pkg
		tv, err := ev.eval(gi.Expr)
		if err != nil {
			c.unsupportedf("global_inv %q: %v", gi.Text, err)
			continue
		}
		c.lines = append(c.lines, "(assert "+tv.T+") ; global_inv")
	}
}

func sortsOfDecls(decls []string) []string {
	var out []string
	for _, d := range decls {
		d = strings.TrimSuffix(strings.TrimPrefix(d, "("), ")")
		i := strings.Index(d, " ")
		out = append(out, d[i+1:])
	}
	return out
}

var _ = constant.MakeBool
