package main

func init() {
	registerProp(&PropCfg{ID: "C20", Families: []string{"LOCK", "SAFE"}, SweepGuarded: true,
		Composition: "lock discipline per function => any interleaving of any number of goroutines is race-free on the guarded tables (standard argument; the Go memory model is trusted); Env.Store of scopes shared between goroutines is outside the statement"})
	registerProp(&PropCfg{ID: "C05", Families: []string{"POST", "SAFE", "FRAME"},
		Composition: "induction over the evaluation from FindPropAlongProtos/FindPropOwner/evalProp to every `o.name`; acyclicity of prototype chains is not needed for partial correctness; ancestors/bro/kindOf? are native one-liners over proto/bear (read, not verified)"})
	registerProp(&PropCfg{ID: "C11", Families: []string{"POST", "SAFE", "FRAME"}, Replay: "index",
		Composition: "s[i] / s[a:b:c] reach findElemInArr/findElemInStr through the `at` property (native Arr.pangaea/Str.pangaea one-liners) and evalPropCall; that dispatch is C05's"})
	registerProp(&PropCfg{ID: "C10", Families: []string{"POST", "SAFE", "FRAME"}, Replay: "intop",
		Composition: "the operator built-ins are reached from `a op b` through evalInfix -> builtInCallProp with args [a, b] (C05/C03 contracts); Comparable's derived operators and Int#/ ** on floats are native/uninterpreted"})
}
