package main

func init() {
	registerProp(&PropCfg{ID: "C04", Families: []string{"POST", "FRAME", "SAFE"},
		Composition: "per-element step contracts of the list/reduce middlewares + the call-shape contracts of the lonely/thoughtful/nothing/findProp middlewares give the documented per-element rule; whole-sequence behaviour follows by induction on the iterator's length (unchecked). Not covered yet: the literal-call family, the dispatch functions newChainMiddleware/merge*, digest of the chain argument (native), which sequence a receiver's iterator yields"})
	registerProp(&PropCfg{ID: "C07", Families: []string{"POST", "FRAME", "SAFE"},
		Composition: "each evaluating function returns the first error it obtains from an evaluating call, unchanged, and makes no further evaluating call (contracts over the ghost call log); appendStackTrace returns the error it is given. Covered: statements, infix, prefix, range, if, jump, assignment, property-call chain middlewares. Not covered yet: array/object/map literals, arguments, embedded strings, literal-call chains"})
	registerProp(&PropCfg{ID: "C03", Families: []string{"POST", "FRAME", "SAFE"},
		Composition: "body sees definition scope: the call's scope is a fresh copy of the closure's own scope whose enclosing scope is the definition scope (by reference, so later assignments there are visible), and it is neither the caller's scope nor the closure's stored scope; assignments write only the innermost store (FRAME.scope on every function held to the EC frame). Unchecked: induction over nesting; symhash injectivity; evalCallable (closure creation) is out of reach (address of a by-value parameter's field escapes) and the positional/keyword binding loops of assignArgsToEnv are only frame-checked; iterator stores are identified by an assumed invariant"})
	registerProp(&PropCfg{ID: "C12", Families: []string{"POST", "FRAME", "SAFE"},
		Composition: "all conditional constructs reduce to isTruthy/canShortCut, which call the receiver's B once; per-construct contracts over the ghost call log give exactly-one-branch and at-most-once evaluation of the right operand. Assumed: start-up DI binds each prototype's B to the verified built-in; objects with a user-defined B are covered by the same call (whatever it returns, only `true` counts)"})
	registerProp(&PropCfg{ID: "C15", Families: []string{"POST", "FRAME", "SAFE", "WF"},
		Composition: "evalStmts = _evalStmts then evalDefer on every path; _evalStmts collects a DeferObj exactly when a statement's value is one (loop step contract); evalDefer evaluates them in order, once, stopping at the first error; nested calls have their own lists. Unchecked: induction over nesting; evalPanFuncCall/evalIterCall reach the body through evalStmts (C03/C14)"})
	registerProp(&PropCfg{ID: "C01", Families: []string{"SAFE", "WF", "POST"},
		SweepPrefixes: []string{"object.", "evaluator.", "props."}, SweepFamilies: []string{"SAFE", "WF"},
		SweepExclude: []string{"object.(*PanObj).AddPairs"},
		Composition:  "induction on the evaluation: every value reaching a built-in was produced by a constructor or an evaluating function whose contract gives well-formedness; under well-formedness no swept instruction panics. Unchecked: the induction; termination/stack/memory (excluded by the property); the parser below tryParse's recover; goroutine start-up code in di; the echo HTTP module"})
	registerProp(&PropCfg{ID: "C06", Families: []string{"FRAME"},
		SweepPrefixes: []string{"object.", "evaluator.", "props."}, SweepFamilies: []string{"FRAME"},
		SweepExclude: []string{"object.(*PanObj).AddPairs"},
		Composition:  "if no function reachable from an evaluation writes memory of a value after the activation that allocated it (EC frame: only variables, iterator state, stack traces, symbol tables), nothing a program does later can change what an existing value prints, contains, equals or inherits; induction over the run is unchecked; native code acts only through the Go built-ins, which are all swept"})
	registerProp(&PropCfg{ID: "C20", Families: []string{"LOCK", "SAFE"}, SweepGuarded: true,
		Composition: "lock discipline per function => any interleaving of any number of goroutines is race-free on the guarded tables (standard argument; the Go memory model is trusted); Env.Store of scopes shared between goroutines is outside the statement"})
	registerProp(&PropCfg{ID: "C05", Families: []string{"POST", "SAFE", "FRAME"},
		Composition: "induction over the evaluation from FindPropAlongProtos/FindPropOwner/evalProp to every `o.name`; acyclicity of prototype chains is not needed for partial correctness; ancestors/bro/kindOf? are native one-liners over proto/bear (read, not verified)"})
	registerProp(&PropCfg{ID: "C11", Families: []string{"POST", "SAFE", "FRAME"}, Replay: "index",
		Composition: "s[i] / s[a:b:c] reach findElemInArr/findElemInStr through the `at` property (native Arr.pangaea/Str.pangaea one-liners) and evalPropCall; that dispatch is C05's"})
	registerProp(&PropCfg{ID: "C10", Families: []string{"POST", "SAFE", "FRAME"}, Replay: "intop",
		Composition: "the operator built-ins are reached from `a op b` through evalInfix -> builtInCallProp with args [a, b] (C05/C03 contracts); Comparable's derived operators and Int#/ ** on floats are native/uninterpreted"})
}
