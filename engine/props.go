package main

func init() {
	registerProp(&PropCfg{ID: "C10", Families: []string{"POST", "SAFE", "FRAME"}, Replay: "intop",
		Composition: "the operator built-ins are reached from `a op b` through evalInfix -> builtInCallProp with args [a, b] (C05/C03 contracts); Comparable's derived operators and Int#/ ** on floats are native/uninterpreted"})
}
