package main

func init() {
	registerProp(&PropCfg{ID: "C01", Families: []string{"SAFE", "WF", "POST"},
		SweepPrefixes: []string{"object.", "evaluator.", "props."}, SweepFamilies: []string{"SAFE", "WF"},
		SweepExclude: []string{"object.(*PanObj).AddPairs"},
		Composition: "induction on the evaluation: every value reaching a built-in was produced by a constructor or an evaluating function whose contract gives well-formedness; under well-formedness no swept instruction panics. Unchecked: the induction; termination/stack/memory (excluded by the property); the parser below tryParse's recover; goroutine start-up code in di; the echo HTTP module"})
	registerProp(&PropCfg{ID: "C06", Families: []string{"FRAME"},
		SweepPrefixes: []string{"object.", "evaluator.", "props."}, SweepFamilies: []string{"FRAME"},
		SweepExclude: []string{"object.(*PanObj).AddPairs"},
		Composition:  "if no function reachable from an evaluation writes memory of a value after the activation that allocated it (EC frame: only variables, iterator state, stack traces, symbol tables), nothing a program does later can change what an existing value prints, contains, equals or inherits; induction over the run is unchecked; native code acts only through the Go built-ins, which are all swept"})
	registerProp(&PropCfg{ID: "C20", Families: []string{"LOCK", "SAFE"}, SweepGuarded: true,
		Composition: "lock discipline per function => any interleaving of any number of goroutines is race-free on the guarded tables (standard argument; the Go memory model is trusted); Env.Store of scopes shared between goroutines is outside the statement"})
	registerProp(&PropCfg{ID: "C05", Families: []string{"POST", "SAFE", "FRAME"},
		Composition: "induction over the evaluation from FindPropAlongProtos/FindPropOwner/evalProp to every `o.name`; acyclicity of prototype chains is not needed for partial correctness; ancestors/bro/kindOf? are native one-liners over proto/bear (read, not verified)"})
	registerProp(&PropCfg{ID: "C11", Families: []string{"POST", "SAFE", "FRAME"}, Replay: "index",
		Composition: "s[i] / s[a:b:c] reach findElemInArr/findElemInStr through the `at` property (native Arr.pangaea/Str.pangaea one-liners) and evalPropCall; that dispatch is C05's"})
	registerProp(&PropCfg{ID: "C10", Families: []string{"POST", "SAFE", "FRAME"}, Replay: "intop",
		Composition: "the operator built-ins are reached from `a op b` through evalInfix -> builtInCallProp with args [a, b] (C05/C03 contracts); Comparable's derived operators and Int#/ ** on floats are native/uninterpreted"})
}
