package main

import (
	"fmt"
	"go/token"
	"go/types"
	"strings"

	"golang.org/x/tools/go/ssa"
)

func boxedSlice(args []Val) (*types.Slice, bool) {
	if len(args) == 0 || args[0].Boxed == nil {
		return nil, false
	}
	sl, ok := args[0].Boxed.Underlying().(*types.Slice)
	return sl, ok
}

// Trusted summaries of external (non-repo) functions. Default: no effect on the repo heap,
// result unconstrained but well-typed. Every distinct external callee used is recorded in
// the evidence trusted_base.
func (c *Ctx) callExternal(fr *Frame, st *State, reach, name string, pos token.Pos, fn *ssa.Function, args []Val, resType types.Type) Val {
	full := fn.String()
	c.noteAssumption("external " + full + ": trusted summary (no effect on repo heap; result well-typed" + externalNote(full) + ")")
	switch full {
	case "(*sync.RWMutex).RLock", "(*sync.RWMutex).RUnlock", "(*sync.RWMutex).Lock", "(*sync.RWMutex).Unlock",
		"(*sync.Mutex).Lock", "(*sync.Mutex).Unlock":
		if len(fn.Params) > 0 {
			// receiver is args[0]; the SSA operand is needed to identify the global
			c.lockOpByVal(fr, full, st, reach, pos)
		}
		return Val{Typ: resType}
	case "math.Floor", "math.Ceil", "math.Sqrt", "math.Abs", "math.Trunc", "math.Round":
		f := "m_" + strings.ToLower(strings.TrimPrefix(full, "math."))
		c.declFun(f, "(F64) F64")
		return Val{T: "(" + f + " " + c.term(args[0]) + ")", Typ: resType}
	case "math.Pow", "math.Mod", "math.Max", "math.Min":
		f := "m_" + strings.ToLower(strings.TrimPrefix(full, "math."))
		c.declFun(f, "(F64 F64) F64")
		return Val{T: "(" + f + " " + c.term(args[0]) + " " + c.term(args[1]) + ")", Typ: resType}
	case "math.IsNaN", "math.IsInf":
		return c.freshResult(st, reach, name, resType)
	case "strings.Repeat":
		// panics on negative count
		g := "(>= " + c.term(args[1]) + " 0)"
		c.oblige("SAFE", "SAFE.extpanic", pos, reach, g, "strings.Repeat: negative count panics")
		c.assume(reach, g)
		return c.freshResult(st, reach, name, resType)
	case "sort.Strings", "sort.Slice", "sort.SliceStable", "sort.Ints":
		// permutes the argument slice in place
		if sl, ok := fn.Params[0].Type().Underlying().(*types.Slice); ok {
			es := c.sorts.Of(sl.Elem())
			an := c.sorts.ElemArrayT(sl.Elem())
			a := c.arr(st, an, es)
			s := c.term(args[0])
			c.frameCheckRef(fr, "(s_arr "+s+")", "sort", st, reach, pos)
			na := c.havoc("sorted", "(Array Int "+es+")")
			c.setArr(st, an, es, fmt.Sprintf("(store %s (s_arr %s) %s)", a, s, na))
		} else if sl, ok := boxedSlice(args); ok {
			// sort.Slice(x any, less) on a slice value: permutes that slice in place - every element afterwards was
			// an element before (trusted summary of the library: a permutation ordered by less); the callback only reads
			es := c.sorts.Of(sl.Elem())
			an := c.sorts.ElemArrayT(sl.Elem())
			a := c.arr(st, an, es)
			s := "(" + unboxName("Slice") + " " + c.term(args[0]) + ")"
			c.frameCheckRef(fr, "(s_arr "+s+")", "sort", st, reach, pos)
			na := c.havoc("sorted", "(Array Int "+es+")")
			i, j := c.fresh("pi"), c.fresh("pj")
			c.lines = append(c.lines, fmt.Sprintf("(assert (forall ((%s Int)) (! (=> (and (<= 0 %s) (< %s (s_len %s))) (exists ((%s Int)) (and (<= 0 %s) (< %s (s_len %s)) (= (select %s (+ (s_off %s) %s)) (select (select %s (s_arr %s)) (+ (s_off %s) %s)))))) :pattern ((select %s (+ (s_off %s) %s))))))",
				i, i, i, s, j, j, j, s, na, s, i, a, s, s, j, na, s, i))
			c.lines = append(c.lines, fmt.Sprintf("(assert (forall ((%s Int)) (! (=> (or (< %s (s_off %s)) (>= %s (+ (s_off %s) (s_len %s)))) (= (select %s %s) (select (select %s (s_arr %s)) %s))) :pattern ((select %s %s)))))",
				i, i, s, i, s, s, na, i, a, s, i, na, i))
			c.setArr(st, an, es, fmt.Sprintf("(store %s (s_arr %s) %s)", a, s, na))
			if len(args) > 1 && args[1].Fn != nil {
				if pk := fnPkg(args[1].Fn); pk != nil && c.w.isRepoPkg(pk.Pkg.Path()) {
					c.applyMods(st, c.mods.Of(args[1].Fn))
				}
			}
			return Val{Typ: resType}
		} else if len(args) > 0 {
			// sort.Slice(x any, less): x is boxed; contents opaque
			c.applyMods(st, &ModSet{Top: true})
		}
		return Val{Typ: resType}
	case "strconv.Itoa", "strconv.FormatInt":
		c.declFun("itoa", "(Int) Str")
		if full == "strconv.Itoa" {
			return Val{T: "(itoa " + c.term(args[0]) + ")", Typ: resType}
		}
	case "unicode/utf8.RuneCountInString":
		return Val{T: "(runecount " + c.term(args[0]) + ")", Typ: resType}
	}
	// an external function that receives a repo function value may call it: effects of that callback
	for i, p := range fn.Params {
		if _, isSig := p.Type().Underlying().(*types.Signature); isSig && i < len(args) {
			if args[i].Fn != nil {
				if pk := fnPkg(args[i].Fn); pk != nil && c.w.isRepoPkg(pk.Pkg.Path()) {
					c.applyMods(st, c.mods.Of(args[i].Fn))
				}
			} else {
				c.applyMods(st, &ModSet{Top: true})
			}
		}
	}
	// writes through pointer/slice arguments into caller-visible memory: io.ReadFull(buf) etc.
	for i, p := range fn.Params {
		if i >= len(args) {
			break
		}
		if sl, ok := p.Type().Underlying().(*types.Slice); ok && externalWritesArg(full, i) {
			es := c.sorts.Of(sl.Elem())
			an := c.sorts.ElemArrayT(sl.Elem())
			a := c.arr(st, an, es)
			s := c.term(args[i])
			c.setArr(st, an, es, fmt.Sprintf("(store %s (s_arr %s) %s)", a, s, c.havoc("extw", "(Array Int "+es+")")))
		}
	}
	return c.freshResult(st, reach, name, resType)
}

func externalWritesArg(full string, i int) bool {
	switch full {
	case "io.ReadFull", "(*bufio.Reader).Read", "(*os.File).Read", "io.ReadAtLeast":
		return true
	}
	return false
}

func externalNote(full string) string {
	switch {
	case strings.HasPrefix(full, "math."):
		return "; uninterpreted float function"
	case strings.HasPrefix(full, "sort."):
		return "; permutes its argument in place, order not modelled"
	}
	return ""
}

// lockOpByVal is called for direct (non-deferred) lock calls; the receiver global is recovered
// from the current instruction.
func (c *Ctx) lockOpByVal(fr *Frame, full string, st *State, reach string, pos token.Pos) {
	if c.curCall == nil || len(c.curCall.Args) == 0 {
		return
	}
	c.lockOp(fr, full, c.curCall.Args[0], st, reach, pos)
}
