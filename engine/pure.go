package main

import (
	"fmt"
	"go/token"
	"go/types"
	"strings"

	"golang.org/x/tools/go/ssa"
)

// Pure accessor methods (Proto, Zero, Type, Hash, ...): loop-free, no effects, reading only
// final fields and final globals. An interface method all of whose implementations are pure
// accessors is modelled as an uninterpreted function im_<M>(recv) with one definitional
// axiom per implementing type (obtained by symbolically executing that implementation).

type pureInfo struct {
	pure  bool
	total bool // cannot panic for a non-nil receiver of the right dynamic type
}

func (ma *ModAnalysis) pureOf(fn *ssa.Function) pureInfo {
	ma.mu.Lock()
	defer ma.mu.Unlock()
	return ma.pureOfLocked(fn, 0)
}

func (ma *ModAnalysis) pureOfLocked(fn *ssa.Function, depth int) pureInfo {
	if ma.pureCache == nil {
		ma.pureCache = map[*ssa.Function]*pureInfo{}
	}
	if pi, ok := ma.pureCache[fn]; ok {
		if pi == nil {
			return pureInfo{pure: true, total: true} // in progress: optimistic for recursion
		}
		return *pi
	}
	ma.pureCache[fn] = nil
	pi := ma.computePure(fn, depth)
	ma.pureCache[fn] = &pi
	return pi
}

func (ma *ModAnalysis) computePure(fn *ssa.Function, depth int) pureInfo {
	if len(fn.Blocks) == 0 || depth > 6 {
		return pureInfo{}
	}
	ci := analyzeCFG(fn)
	if len(ci.loops) > 0 {
		return pureInfo{}
	}
	total := true
	recvRooted := func(v ssa.Value) bool {
		for {
			switch x := v.(type) {
			case *ssa.Parameter:
				return len(fn.Params) > 0 && x == fn.Params[0]
			case *ssa.FieldAddr:
				v = x.X
			case *ssa.Alloc:
				return !x.Heap
			default:
				return false
			}
		}
	}
	for _, b := range fn.Blocks {
		for _, ins := range b.Instrs {
			switch x := ins.(type) {
			case *ssa.DebugRef, *ssa.If, *ssa.Jump, *ssa.Return, *ssa.Phi, *ssa.BinOp, *ssa.ChangeInterface, *ssa.ChangeType,
				*ssa.Extract, *ssa.Field, *ssa.TypeAssert:
				if ta, ok := ins.(*ssa.TypeAssert); ok && !ta.CommaOk {
					total = false
				}
				if bo, ok := ins.(*ssa.BinOp); ok && (bo.Op == token.QUO || bo.Op == token.REM) {
					total = false
				}
			case *ssa.Panic:
				total = false
			case *ssa.Convert:
				if !(isIntLike(x.X.Type()) && isIntLike(x.Type())) && !(isStringType(x.X.Type()) && isStringType(x.Type())) &&
					!(isFloat(x.X.Type()) || isFloat(x.Type())) {
					return pureInfo{}
				}
			case *ssa.MakeInterface:
				// boxing a non-reference allocates: allowed only for reference-like operands
				if !isRefLike(x.X.Type()) {
					onlyPanic := true
					if refs := x.Referrers(); refs != nil {
						for _, r := range *refs {
							if _, ok := r.(*ssa.Panic); !ok {
								onlyPanic = false
							}
						}
					}
					if !onlyPanic {
						return pureInfo{}
					}
				}
			case *ssa.Alloc:
				if x.Heap {
					return pureInfo{}
				}
			case *ssa.Store:
				// only into non-escaping locals
				root := x.Addr
				for {
					if fa, ok := root.(*ssa.FieldAddr); ok {
						root = fa.X
						continue
					}
					break
				}
				if a, ok := root.(*ssa.Alloc); !ok || a.Heap {
					return pureInfo{}
				}
			case *ssa.FieldAddr:
				if !recvRooted(x.X) {
					total = false
				}
			case *ssa.UnOp:
				if x.Op == token.MUL {
					switch a := x.X.(type) {
					case *ssa.Global:
						if !ma.final[a] {
							return pureInfo{}
						}
					case *ssa.FieldAddr:
						root := ssa.Value(a)
						var first *ssa.FieldAddr
						for {
							if fa, ok := root.(*ssa.FieldAddr); ok {
								first = fa
								root = fa.X
								continue
							}
							break
						}
						if al, ok := root.(*ssa.Alloc); ok && !al.Heap {
							break
						}
						pt, ok := root.Type().Underlying().(*types.Pointer)
						if !ok {
							return pureInfo{}
						}
						n, _ := ma.sorts.FieldArray(pt.Elem(), first.Field)
						if !ma.IsFinalField(n) {
							return pureInfo{}
						}
					case *ssa.Alloc:
						if a.Heap {
							return pureInfo{}
						}
					default:
						return pureInfo{}
					}
				}
			case *ssa.Call:
				if x.Call.IsInvoke() {
					if !ma.w.isRepoInterface(x.Call.Value.Type()) {
						return pureInfo{}
					}
					ip := ma.pureIfaceLocked(x.Call.Value.Type(), x.Call.Method, depth+1)
					if !ip {
						return pureInfo{}
					}
					total = false // receiver may be nil / non-total implementer
					continue
				}
				callee := x.Call.StaticCallee()
				if callee == nil {
					return pureInfo{}
				}
				if pk := fnPkg(callee); pk == nil || !ma.w.isRepoPkg(pk.Pkg.Path()) {
					return pureInfo{}
				}
				cp := ma.pureOfLocked(callee, depth+1)
				if !cp.pure {
					return pureInfo{}
				}
				if !cp.total {
					total = false
				}
				// receiver of the callee must be receiver-rooted for totality
				if len(x.Call.Args) > 0 && !recvRooted(x.Call.Args[0]) {
					total = false
				}
			default:
				return pureInfo{}
			}
		}
	}
	return pureInfo{pure: true, total: total}
}

func (ma *ModAnalysis) PureIface(ifaceT types.Type, m *types.Func) bool {
	ma.mu.Lock()
	defer ma.mu.Unlock()
	return ma.pureIfaceLocked(ifaceT, m, 0)
}

func (ma *ModAnalysis) pureIfaceLocked(ifaceT types.Type, m *types.Func, depth int) bool {
	key := m.FullName()
	if ma.pureIfaceCache == nil {
		ma.pureIfaceCache = map[string]int{}
	}
	switch ma.pureIfaceCache[key] {
	case 1:
		return true
	case 2:
		return false
	case 3:
		return true // in progress
	}
	ma.pureIfaceCache[key] = 3
	iface := ifaceT.Underlying().(*types.Interface)
	ok := true
	n := 0
	for _, it := range ma.w.Implementers(iface) {
		sel := ma.w.Prog.MethodSets.MethodSet(it).Lookup(m.Pkg(), m.Name())
		if sel == nil {
			continue
		}
		mfn := ma.w.Prog.MethodValue(sel)
		if mfn == nil {
			ok = false
			break
		}
		n++
		if !ma.pureOfLocked(mfn, depth+1).pure {
			ok = false
			break
		}
	}
	if n == 0 {
		ok = false
	}
	if ok {
		ma.pureIfaceCache[key] = 1
	} else {
		ma.pureIfaceCache[key] = 2
	}
	return ok
}

func imName(m *types.Func) string {
	recv := ""
	if sig, ok := m.Type().(*types.Signature); ok && sig.Recv() != nil {
		recv = shortTypeName(sig.Recv().Type()) + "_"
	}
	return "im_" + sanitize(recv+m.Name())
}

// pureInvoke models recv.M(args) for a pure interface method; emits the definitional axioms once.
func (c *Ctx) pureInvoke(ifaceT types.Type, m *types.Func, rt string, args []Val, resType types.Type) Val {
	name := imName(m)
	sig := m.Type().(*types.Signature)
	var psorts []string
	psorts = append(psorts, "Int")
	for i := 0; i < sig.Params().Len(); i++ {
		psorts = append(psorts, c.sorts.Of(sig.Params().At(i).Type()))
	}
	if !c.declaredFn(name) {
		c.prependDecl(fmt.Sprintf("(declare-fun %s (%s) %s)", name, strings.Join(psorts, " "), c.sorts.Of(resType)))
		c.emitPureAxioms(ifaceT, m, name, resType)
	}
	ts := []string{rt}
	for _, a := range args {
		ts = append(ts, c.term(a))
	}
	// ground instances of the definitional axioms for this receiver (quantifier-free, so that the reduced
	// query and E-matching-shy goals see them too)
	if len(args) == 0 && c.specDepth == 0 {
		if c.pureGround == nil {
			c.pureGround = map[string]bool{}
		}
		key := name + "|" + rt
		if !c.pureGround[key] && len(rt) < 200 {
			c.pureGround[key] = true
			for _, tp := range c.pureTemplates[name] {
				inst := replaceToken(tp.body, tp.rname, rt)
				c.lines = append(c.lines, fmt.Sprintf("(assert (=> (and (not (= %s 0)) (= (dtype %s) %s)) (= (%s %s) %s)))", rt, rt, tp.tag, name, rt, inst))
			}
		}
	}
	return Val{T: "(" + name + " " + strings.Join(ts, " ") + ")", Typ: resType}
}

type pureTemplate struct{ rname, body, tag string }

// replaceToken replaces whole-symbol occurrences of name in an s-expression.
func replaceToken(s, name, repl string) string {
	var b strings.Builder
	i := 0
	for i < len(s) {
		j := strings.Index(s[i:], name)
		if j < 0 {
			b.WriteString(s[i:])
			break
		}
		j += i
		end := j + len(name)
		okL := j == 0 || strings.ContainsRune(" ()", rune(s[j-1]))
		okR := end == len(s) || strings.ContainsRune(" ()", rune(s[end]))
		b.WriteString(s[i:j])
		if okL && okR {
			b.WriteString(repl)
		} else {
			b.WriteString(name)
		}
		i = end
	}
	return b.String()
}

func (c *Ctx) declaredFn(name string) bool {
	if c.declared == nil {
		c.declared = map[string]bool{}
	}
	if c.declared[name] {
		return true
	}
	c.declared[name] = true
	return false
}

// prependDecl puts a declaration at the very front so every obligation sees it.
func (c *Ctx) prependDecl(d string) {
	c.lines = append([]string{d}, c.lines...)
	for _, o := range c.obls {
		o.Upto++
	}
	c.pendingShift++
}

func (c *Ctx) emitPureAxioms(ifaceT types.Type, m *types.Func, name string, resType types.Type) {
	iface := ifaceT.Underlying().(*types.Interface)
	sig := m.Type().(*types.Signature)
	for _, it := range c.w.Implementers(iface) {
		sel := c.w.Prog.MethodSets.MethodSet(it).Lookup(m.Pkg(), m.Name())
		if sel == nil {
			continue
		}
		mfn := c.w.Prog.MethodValue(sel)
		if mfn == nil || len(mfn.Blocks) == 0 {
			continue
		}
		r := c.fresh("r")
		decls := []string{"(" + r + " Int)"}
		recvVal := Val{T: r, Typ: it}
		if !isRefLike(it) {
			s := c.sorts.Of(it)
			c.useUnboxFront(s)
			recvVal = Val{T: fmt.Sprintf("(%s %s)", unboxName(s), r), Typ: it}
		}
		args := []Val{recvVal}
		app := []string{r}
		for i := 0; i < sig.Params().Len(); i++ {
			a := c.fresh("a")
			decls = append(decls, fmt.Sprintf("(%s %s)", a, c.sorts.Of(sig.Params().At(i).Type())))
			args = append(args, Val{T: a, Typ: sig.Params().At(i).Type()})
			app = append(app, a)
		}
		// symbolic execution in spec mode: no definitions, no assumptions, no obligations
		c.specDepth++
		savedErr := c.specErr
		c.specErr = ""
		scratch := &State{heap: map[string]string{}, locals: map[*ssa.Alloc]string{}, alloc: "alloc_entry", held: "0"}
		fr := &Frame{fn: mfn, vals: map[ssa.Value]Val{}, depth: 1}
		for i, p := range mfn.Params {
			if i < len(args) {
				fr.vals[p] = args[i]
			}
		}
		rets := c.execBody(fr, scratch, "true")
		bad := c.specErr
		c.specErr = savedErr
		c.specDepth--
		if bad != "" || len(rets) == 0 {
			continue // partial / panicking implementation: im_M is unconstrained for this type
		}
		var conds, vals []string
		for _, rp := range rets {
			conds = append(conds, rp.reach)
			if len(rp.vals) == 1 {
				vals = append(vals, c.term(rp.vals[0]))
			}
		}
		if len(vals) != len(conds) {
			continue
		}
		body := iteChain(conds, vals)
		appT := "(" + name + " " + strings.Join(app, " ") + ")"
		guard := fmt.Sprintf("(and (not (= %s 0)) (= (dtype %s) %s))", r, r, c.tagOf(it))
		c.lines = append(c.lines, fmt.Sprintf("(assert (forall (%s) (! (=> %s (= %s %s)) :pattern (%s))))",
			strings.Join(decls, " "), guard, appT, body, appT))
		if sig.Params().Len() == 0 {
			if c.pureTemplates == nil {
				c.pureTemplates = map[string][]pureTemplate{}
			}
			c.pureTemplates[name] = append(c.pureTemplates[name], pureTemplate{rname: r, body: body, tag: c.tagOf(it)})
		}
	}
}

func (c *Ctx) useUnboxFront(sort string) {
	d := fmt.Sprintf("(declare-fun %s (Int) %s)", unboxName(sort), sort)
	for _, l := range c.lines {
		if l == d {
			return
		}
	}
	c.prependDecl(d)
}

// nonTotalImplementers: dynamic types for which calling m may panic.
func (c *Ctx) nonTotalImplementers(ifaceT types.Type, m *types.Func) []types.Type {
	iface := ifaceT.Underlying().(*types.Interface)
	var out []types.Type
	for _, it := range c.w.Implementers(iface) {
		sel := c.w.Prog.MethodSets.MethodSet(it).Lookup(m.Pkg(), m.Name())
		if sel == nil {
			continue
		}
		mfn := c.w.Prog.MethodValue(sel)
		if mfn == nil || !c.mods.pureOf(mfn).total {
			out = append(out, it)
		}
	}
	return out
}
