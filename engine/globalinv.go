package main

import (
	"fmt"
	"go/types"
	"sort"
	"strings"

	"golang.org/x/tools/go/ssa"
)

// Global invariants are facts about package-level variables after package initialisation. Initialisation
// is deterministic and has no inputs, so executing it once and evaluating the facts on the resulting
// state decides them completely. They are checked by an in-package Go test injected with -overlay.
//
//  - automatic: every final pointer- or map-typed package variable is non-nil, and final pointer
//    variables of the same type are pairwise distinct;
//  - written: the `global_inv` clauses of the contract files.

type globalInvResult struct {
	Name   string
	OK     bool
	Detail string
}

func specToGo(e SExpr) (string, error) {
	switch x := e.(type) {
	case *SIdent:
		return x.Name, nil
	case *SInt:
		return x.V, nil
	case *SStr:
		return fmt.Sprintf("%q", x.V), nil
	case *SBool:
		return fmt.Sprint(x.V), nil
	case *SNil:
		return "nil", nil
	case *SSel:
		a, err := specToGo(x.X)
		if err != nil {
			return "", err
		}
		return a + "." + x.Sel, nil
	case *SUn:
		a, err := specToGo(x.X)
		if err != nil {
			return "", err
		}
		return "(" + x.Op + a + ")", nil
	case *SBin:
		a, err := specToGo(x.X)
		if err != nil {
			return "", err
		}
		b, err := specToGo(x.Y)
		if err != nil {
			return "", err
		}
		switch x.Op {
		case "==>":
			return "(!(" + a + ") || (" + b + "))", nil
		case "<==>":
			return "((" + a + ") == (" + b + "))", nil
		}
		return "(" + a + " " + x.Op + " " + b + ")", nil
	case *SCall:
		if id, ok := x.Fun.(*SIdent); ok {
			switch id.Name {
			case "isT":
				a, err := specToGo(x.Args[0])
				if err != nil {
					return "", err
				}
				return fmt.Sprintf("func() bool { _, ok := interface{}(%s).(%s); return ok }()", a, x.TypeArg), nil
			case "len":
				a, err := specToGo(x.Args[0])
				if err != nil {
					return "", err
				}
				return "len(" + a + ")", nil
			}
		}
		if sel, ok := x.Fun.(*SSel); ok {
			a, err := specToGo(sel.X)
			if err != nil {
				return "", err
			}
			return a + "." + sel.Sel + "()", nil
		}
	case *SDeref:
		a, err := specToGo(x.X)
		if err != nil {
			return "", err
		}
		return "(*" + a + ")", nil
	}
	return "", fmt.Errorf("global_inv: expression %s cannot be evaluated by execution", e)
}

// substSelf replaces the identifier `self` by a package variable.
func substSelf(e SExpr, name string) SExpr {
	switch x := e.(type) {
	case *SIdent:
		if x.Name == "self" {
			return &SIdent{Name: name}
		}
		return x
	case *SSel:
		return &SSel{X: substSelf(x.X, name), Sel: x.Sel}
	case *SUn:
		return &SUn{Op: x.Op, X: substSelf(x.X, name)}
	case *SBin:
		return &SBin{Op: x.Op, X: substSelf(x.X, name), Y: substSelf(x.Y, name)}
	case *SDeref:
		return &SDeref{X: substSelf(x.X, name)}
	case *SCall:
		c := *x
		c.Args = nil
		for _, a := range x.Args {
			c.Args = append(c.Args, substSelf(a, name))
		}
		return &c
	}
	return e
}

func checkGlobalInvs(w *World, sp *Specs, mods *ModAnalysis) []globalInvResult {
	var out []globalInvResult
	pkgs := map[string]bool{}
	for _, gi := range sp.GlobalInvs {
		pkgs[gi.Pkg] = true
	}
	pkgs["object"] = true
	for _, pk := range sortedKeys(pkgs) {
		sp2 := w.SSAPkgs[pk]
		p := w.PkgByID[pk]
		if sp2 == nil || p == nil {
			continue
		}
		var b strings.Builder
		fmt.Fprintf(&b, "package %s\n\nimport (\n\t\"fmt\"\n\t\"testing\"\n)\n\nfunc TestGocvGlobalInv(t *testing.T) {\n\tchk := func(name string, ok bool) {\n\t\tif ok {\n\t\t\tfmt.Println(\"GLOBALINV ok \" + name)\n\t\t} else {\n\t\t\tfmt.Println(\"GLOBALINV FAIL \" + name)\n\t\t}\n\t}\n", pk)
		byType := map[string][]string{}
		var names []string
		for n, m := range sp2.Members {
			if g, ok := m.(*ssa.Global); ok && mods.IsFinal(g) && !strings.HasPrefix(n, "init$") && n != "_" {
				names = append(names, n)
			}
		}
		sort.Strings(names)
		for _, n := range names {
			g := sp2.Members[n].(*ssa.Global)
			elem := g.Type().(*types.Pointer).Elem()
			switch elem.Underlying().(type) {
			case *types.Pointer:
				fmt.Fprintf(&b, "\tchk(%q, %s != nil)\n", "auto:"+pk+"."+n+" != nil", n)
				ts := types.TypeString(elem, func(*types.Package) string { return "" })
				byType[ts] = append(byType[ts], n)
			case *types.Map:
				fmt.Fprintf(&b, "\tchk(%q, %s != nil)\n", "auto:"+pk+"."+n+" != nil", n)
			}
		}
		for _, ts := range sortedKeys(byType) {
			ns := byType[ts]
			for i := 0; i < len(ns); i++ {
				for j := i + 1; j < len(ns); j++ {
					fmt.Fprintf(&b, "\tchk(%q, %s != %s)\n", "auto:"+pk+"."+ns[i]+" != "+ns[j], ns[i], ns[j])
				}
			}
		}
		// the (executable, quantifier-free) type invariants of every final package variable that points to a struct:
		// a prototype object that initialisation forgot to build is found here
		for _, n := range names {
			g := sp2.Members[n].(*ssa.Global)
			pt, ok := g.Type().(*types.Pointer).Elem().Underlying().(*types.Pointer)
			if !ok {
				continue
			}
			nt, ok := pt.Elem().(*types.Named)
			if !ok || nt.Obj().Pkg() == nil {
				continue
			}
			key := nt.Obj().Pkg().Name() + "." + nt.Obj().Name()
			for _, ti := range sp.TypeInvs {
				if ti.Type != key || ti.Assumed {
					continue
				}
				ge, err := specToGo(substSelf(ti.Expr, n))
				if err != nil {
					continue // quantified or spec-function invariants are not executable
				}
				fmt.Fprintf(&b, "\tchk(%q, %s)\n", "auto-inv:"+pk+"."+n+" satisfies the invariant of "+key+": "+ti.Text, ge)
			}
		}
		for _, gi := range sp.GlobalInvs {
			if gi.Pkg != pk {
				continue
			}
			g, err := specToGo(gi.Expr)
			if err != nil {
				out = append(out, globalInvResult{Name: "global_inv " + gi.Text, OK: false, Detail: err.Error()})
				continue
			}
			fmt.Fprintf(&b, "\tchk(%q, %s)\n", "global_inv "+gi.Text, g)
		}
		b.WriteString("}\n")
		// imports of "fmt" may clash if package has fmt already: it's a separate file, fine.
		rel := strings.TrimPrefix(p.PkgPath, repoMod+"/")
		res, _ := goTestOverlay(w.RepoDir, rel, "zz_gocv_globalinv_test.go", b.String(), "TestGocvGlobalInv", nil)
		n := 0
		for _, l := range strings.Split(res, "\n") {
			if strings.HasPrefix(l, "GLOBALINV ok ") {
				out = append(out, globalInvResult{Name: strings.TrimPrefix(l, "GLOBALINV ok "), OK: true})
				n++
			} else if strings.HasPrefix(l, "GLOBALINV FAIL ") {
				out = append(out, globalInvResult{Name: strings.TrimPrefix(l, "GLOBALINV FAIL "), OK: false, Detail: "false after package initialisation"})
				n++
			}
		}
		if n == 0 {
			out = append(out, globalInvResult{Name: "globalinv test of package " + pk, OK: false, Detail: "test did not run: " + truncate(lastLines(res, 8), 600)})
		}
	}
	return out
}
