#!/usr/bin/env python3
# regenerates MANIFEST.json from the table below (kept valid at all times)
import json,subprocess
props=[json.loads(l) for l in open('/verif/properties.jsonl')]
TECH="contract-based deductive verification: WP-style VC generation over go/ssa + SMT (z3, z3-new, cvc5)"
NOTE_COMMON=" Trusted: go/ssa front end, gocv's SSA->SMT translation, the SMT solvers, summaries of external library functions, the assumptions listed in the evidence file; the step from per-function contracts to whole-program behaviour is an unchecked induction over the evaluation."
claimed={
'C01':("Proof for the functions in the baseline (reported in the evidence: functions swept / fully discharged / undecided): panic-freedom (index, slice, nil dereference, nil map, failed type assertion, division by zero, nil call, explicit panic, panicking interface implementations) and well-formedness (type invariants of every allocated object, value results, container element writes) of every function of object, evaluator and props, under default preconditions by type, plus the written contracts. Functions with an undischarged obligation are listed as undecided and are not claimed.","DESIGN.md section 4 C01 + Status as built"),
'C03':("Proof: a call evaluates the body in a fresh copy of the closure's scope whose enclosing scope is the definition scope and which is neither the caller's nor the closure's stored scope; assignment writes the innermost store only (scope discipline FRAME.scope on every function held to the EC frame); lookup goes innermost-first; receiver is prepended to method arguments; anonymous chains read \\1; paddedArgs pads with nil.","DESIGN.md section 4 C03"),
'C04':("Proof of the per-element rule of each property-call middleware (lonely, thoughtful, nothing, findProp, squash/keep list, reduce) as call-shape postconditions and loop step contracts over the ghost call log.","DESIGN.md section 4 C04"),
'C05':("Proof: FindPropAlongProtos/FindPropOwner return the value/owner at the first prototype that owns the name for every chain depth (existential loop invariant over anc(o,k)); evalProp tries the property, then the first _missing, then NoPropErr; evalCall invokes built-ins/functions with the receiver first and returns anything else as is; 15 TraceProtoOf* walkers against recursive specs.","DESIGN.md section 4 C05"),
'C06':("Proof: FRAME sweep over every function of object, evaluator and props: every store, append (with the in-place branch modelled), map update, copy, delete, sort and every callee effect either targets memory allocated in the same activation, or lies in the declared EC frame (variables, iterator state, stack traces, symbol tables), or is named by the function's own assigns clause; frames of callees are proved, not assumed (refinement rounds).","DESIGN.md section 4 C06"),
'C07':("Proof (for the constructs under contract): the first error obtained from an evaluating call is returned unchanged and no further evaluating call is made - statements, infix, prefix, range bounds, if, jump statements, assignment, property-call chain middlewares; =@ and range-bound defects repaired.","DESIGN.md section 4 C07"),
'C10':("Proof: every obligation generated from the go/ssa of the 10 Int operator built-ins, their argument checker and the prototype-chain walkers (postconditions from the property statement over mathematical integers with explicit 64-bit wrap-around) is discharged for all int64 operand pairs and all prototype chains; Int#** is a known finding (math.Pow).","DESIGN.md section 4 C10"),
'C11':("Proof: arrIndex/strIndex against the indexing rule, fixRange against CPython's slice-index adjustment for every length and every int64 start/stop/step, valRange's loop (wrap-around modelled) never hands a position outside [0,size) to the element accessor, strRange/arrRange/findElemIn* panic-free.","DESIGN.md section 4 C11"),
'C12':("Proof: isTruthy/canShortCut call the receiver's B exactly once (bool fast path aside); if-expressions evaluate the condition once and exactly one branch; && / || evaluate the right operand at most once and only when needed and return the deciding operand; guarded jumps do not evaluate their value on a false guard; closed forms of the ten per-type B built-ins and of `!`.","DESIGN.md section 4 C12"),
'C13':("Proof: v.try is an EitherVal holding exactly v; EitherVal#fmap calls the step exactly once with the held value and returns an EitherVal of its result, or - when the step raised - an EitherErr whose captured error has the same kind and message (WrapErr); EitherErr#fmap calls nothing and returns the same Either (later steps are skipped); val/err/or/A of both variants return the single held slot (or nil) in the documented shape.","DESIGN.md section 4 C13 + Status as built"),
'C14':("Proof: Iter#new and `_iter` return a new iterator over the same code whose scope and variable store are allocated in the call (never shared), enclosed by the definition scope; the copy made by `_iter` has exactly the bindings of the original (map-range completeness ghost); next binds recur and evaluates the body exactly once in the iterator's current scope; recur gives this iterator - and only it - a new scope with the new arguments; a body that runs to its end evaluates to its first yield; a guarded yield with a false guard is StopIterErr; chains reach iterators through iterOf/Next.","DESIGN.md section 4 C14 + Status as built"),
'C15':("Proof: _evalStmts evaluates the statements in order and appends a DeferObj exactly when a statement's value is one (loop step contract), evalDefer evaluates the collected expressions in order, each once, stopping at the first error, evalStmts runs the defers after the body on every path and only a failing defer replaces the outcome; a plain/guarded defer does not evaluate its expression.","DESIGN.md section 4 C15"),
'C20':("Proof of lock discipline: every read of symHashTable/strTable holds the RWMutex, every write holds it in write mode, acquisitions are not nested, the lock state at return equals that at entry, for every path of every function that touches the tables; plus the enumeration obligation that every package-level container written after initialisation is declared guarded.","DESIGN.md section 4 C20"),
}
extra_notes={}
checks=[]
for pid,(text,ref) in sorted(claimed.items()):
    checks.append({"property_id":pid,"quick_cmd":"./check %s --tier quick"%pid,"thorough_cmd":"./check %s --tier thorough"%pid,
      "evidence_file":"/verif/evidence/%s.json"%pid,"replay_cmd_template":"./check --replay {path}","engine":"gocv",
      "level_claimed":{"category":"proof","text":text,"design_ref":ref},"level_note":(extra_notes.get(pid,"")+NOTE_COMMON).strip(),"technique":TECH})
na_reasons={
'C08':"not claimed: the ORDER obligations exist for infix/prefix/range/if/statements (they are part of C07/C12/C15's contracts) but array/object/map literals, argument lists, keyword arguments and embedded strings - where the known order defects are - are not under contract yet",
'C09':"not claimed: NewInheritedMap/evalObj/evalMap first-wins step contracts not written yet (only their frames, under C06)",
'C16':"not claimed: lexer buffer contracts (third_party/simplexer) not written yet; the layout/comment part is a statement about regular expressions and LALR tables",
'C17':"literal denotation is computed by external strconv/math inside goyacc-generated action code and the name clause is a statement about an ordered regex table; no function contract within reach decides it (DESIGN.md section 5)",
'C18':"not claimed: ==/<=> closed forms and law lemmas not written yet (Int#<=> value is proved under C10)",
'C19':"not claimed as a whole: the FRAME sweep (C06) and the scope discipline (C03) cover writes to memory reachable from package-level variables only through the EC frame; the `_` stack-trace leak and runTest's scope are known defects not yet under contract",
'C02':"precedence/associativity is encoded in goyacc's generated LALR tables; no repository function has a contract that states grouping, and proving an LALR automaton against the grammar is outside WP+SMT (DESIGN.md section 5)",
}
hooks=subprocess.run("git -C /repo log --format=%h --grep='^verif:'",shell=True,capture_output=True,text=True).stdout.split()
m={"version":1,
 "setup_cmd":"cd /verif/engine && GOFLAGS=-mod=mod GOPROXY=off GOSUMDB=off GOTOOLCHAIN=local go build -o /verif/bin/gocv .",
 "hooks":{"guard":"verif","enable":"gocv loads /repo with go/packages BuildFlags -tags=verif; the only hook files are /repo/<pkg>/zz_contracts_verif.go (//go:build verif, comments only)",
   "baseline_off_cmd":"cd /repo && GOFLAGS=-mod=mod GOPROXY=off GOSUMDB=off go test -vet=off -count=1 -timeout 25m ./...",
   "source_commits":hooks,"add_only":True},
 "engines":[{"name":"gocv","path":"/verif/engine","serves_properties":sorted(claimed),"kind_free_text":"self-written deductive verifier for Go: contracts as //@ comments in guarded files, weakest-precondition VCs over go/ssa, discharged by z3 4.8.12 / z3-new 5.1.0 / cvc5 1.0.3"}],
 "checks":checks,
 "not_applicable":[{"property_id":p["id"],"reason":na_reasons.get(p["id"],"contracts for this property are not written yet (work order in DESIGN.md section 9); not claimed until its obligations discharge")} for p in props if p["id"] not in claimed],
 "notes":"see DESIGN.md; known findings in known_findings.json"}
json.dump(m,open('/verif/MANIFEST.json','w'),indent=1)
print("claimed:",sorted(claimed))
