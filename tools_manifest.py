#!/usr/bin/env python3
# regenerates MANIFEST.json from the table below (kept valid at all times)
import json,subprocess
props=[json.loads(l) for l in open('/verif/properties.jsonl')]
TECH="contract-based deductive verification: WP-style VC generation over go/ssa + SMT (z3, z3-new, cvc5)"
NOTE_COMMON=" Trusted: go/ssa front end, gocv's SSA->SMT translation, the SMT solvers, summaries of external library functions, the assumptions listed in the evidence file; the step from per-function contracts to whole-program behaviour is an unchecked induction over the evaluation."
claimed={
'C10':("Proof: every obligation generated from the go/ssa of the 10 Int operator built-ins, their argument checker and the prototype-chain walkers (postconditions taken from the property statement over mathematical integers with explicit 64-bit wrap-around, loop invariants against a recursive spec of the chain walk, panic-freedom, frame) is discharged for all int64 operand pairs and all prototype chains; Int#** is a known finding (math.Pow).","DESIGN.md section 4 C10"),
'C11':("Proof: arrIndex/strIndex against the indexing rule, fixRange against CPython's slice-index adjustment (from the statement) for every length and every int64 start/stop/step, valRange's loop (with wrap-around modelled) never hands a position outside [0,size) to the element accessor, strRange/arrRange/findElemIn* panic-free; all obligations discharged unboundedly.","DESIGN.md section 4 C11"),
'C05':("Proof: FindPropAlongProtos and FindPropOwner return the value/owner at the first prototype that owns the name, for every chain depth and shadowing pattern (existential loop invariant over anc(o,k)); findProp, findElemInObj and the 15 TraceProtoOf* walkers against recursive specs.","DESIGN.md section 4 C05"),
}
extra_notes={}
checks=[]
for pid,(text,ref) in sorted(claimed.items()):
    checks.append({"property_id":pid,"quick_cmd":"./check %s --tier quick"%pid,"thorough_cmd":"./check %s --tier thorough"%pid,
      "evidence_file":"/verif/evidence/%s.json"%pid,"replay_cmd_template":"./check --replay {path}","engine":"gocv",
      "level_claimed":{"category":"proof","text":text,"design_ref":ref},"level_note":(extra_notes.get(pid,"")+NOTE_COMMON).strip(),"technique":TECH})
na_reasons={
'C02':"precedence/associativity is encoded in goyacc's generated LALR tables; no repository function has a contract that states grouping, and proving an LALR automaton against the grammar is outside WP+SMT (DESIGN.md section 5)",
}
hooks=subprocess.run("git -C /repo log --format=%h --grep='^verif:'",shell=True,capture_output=True,text=True).stdout.split()
m={"version":1,
 "setup_cmd":"cd /verif/engine && GOFLAGS=-mod=mod GOPROXY=off GOSUMDB=off GOTOOLCHAIN=local go build -o /verif/bin/gocv .",
 "hooks":{"guard":"verif","enable":"gocv loads /repo with go/packages BuildFlags -tags=verif; the only hook files are /repo/<pkg>/zz_contracts_verif.go (//go:build verif, comments only)",
   "baseline_off_cmd":"cd /repo && GOFLAGS=-mod=mod GOPROXY=off GOSUMDB=off go test -vet=off -count=1 -timeout 25m ./...",
   "source_commits":hooks,"add_only":True},
 "engines":[{"name":"gocv","path":"/verif/engine","serves_properties":sorted(claimed),"kind_free_text":"self-written deductive verifier for Go: contracts as //@ comments in guarded files, weakest-precondition VCs over go/ssa, discharged by z3 4.8.12 / z3-new 5.1.0 / cvc5 1.0.3"}],
 "checks":checks,
 "not_applicable":[{"property_id":p["id"],"reason":na_reasons.get(p["id"],"contracts for this property are not written yet (work order in DESIGN.md section 9); not claimed until its obligations discharge")} for p in props if p["id"] not in claimed],
 "notes":"see DESIGN.md; known findings in known_findings.json"}
json.dump(m,open('/verif/MANIFEST.json','w'),indent=1)
print("claimed:",sorted(claimed))
